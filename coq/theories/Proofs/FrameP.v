(* Lemmas on the snapshot file format: escaping, frames, lookup, append, rewrite. *)
From Coq Require Import String.
From Coq Require Import List NArith Arith Bool Lia.
Import ListNotations.
From Snaps Require Import Base.Bytes Base.Lines Model.Frame Proofs.BytesP Proofs.LinesP.

(* ---------- the two special lines ---------- *)

#[global] Arguments endseq : simpl never.
#[global] Arguments token : simpl never.
#[global] Arguments nl : simpl never.

Lemma endseq_neq_token : endseq <> token. Proof. discriminate. Qed.
Lemma endseq_no_nl : no_nl endseq. Proof. unfold no_nl, endseq, nl; cbn. intuition discriminate. Qed.
Lemma token_no_nl : no_nl token. Proof. unfold no_nl, token, nl; cbn. intuition discriminate. Qed.
Lemma endseq_safe : safe_line endseq. Proof. split; [apply endseq_no_nl|reflexivity]. Qed.
Lemma token_safe : safe_line token. Proof. split; [apply token_no_nl|reflexivity]. Qed.
Lemma nil_safe : safe_line []. Proof. split; [apply no_nl_nil|reflexivity]. Qed.

(* ---------- escape / unescape ---------- *)

Definition esc_line (l : bytes) : bytes := if beq l endseq then token else l.
Definition unesc_line (l : bytes) : bytes := if beq l token then endseq else l.

Lemma esc_line_no_nl l : no_nl l -> no_nl (esc_line l).
Proof. unfold esc_line. destruct (beq l endseq); auto using token_no_nl. Qed.
Lemma unesc_line_no_nl l : no_nl l -> no_nl (unesc_line l).
Proof. unfold unesc_line. destruct (beq l token); auto using endseq_no_nl. Qed.

Lemma map_nonempty {A B} (f : A -> B) l : l <> [] -> map f l <> [].
Proof. destruct l; cbn; congruence. Qed.

Lemma escape_lines s : split_nl (escape s) = map esc_line (split_nl s).
Proof.
  unfold escape. apply split_join.
  - apply map_nonempty, split_nl_nonempty.
  - apply Forall_map. eapply Forall_impl; [|apply split_nl_all_no_nl].
    intros l Hl. now apply esc_line_no_nl.
Qed.

Lemma unescape_lines s : split_nl (unescape s) = map unesc_line (split_nl s).
Proof.
  unfold unescape. apply split_join.
  - apply map_nonempty, split_nl_nonempty.
  - apply Forall_map. eapply Forall_impl; [|apply split_nl_all_no_nl].
    intros l Hl. now apply unesc_line_no_nl.
Qed.

Lemma esc_line_not_endseq l : esc_line l <> endseq.
Proof.
  unfold esc_line. destruct (beq_spec l endseq) as [->|H]; [discriminate|assumption].
Qed.

(* an escaped text has no terminator line *)
Lemma escape_no_endseq s : ~ In endseq (split_nl (escape s)).
Proof.
  rewrite escape_lines. intros H. apply in_map_iff in H as [l [Hl _]].
  now apply esc_line_not_endseq in Hl.
Qed.

Lemma unesc_esc_line l : unesc_line (esc_line l) = unesc_line l.
Proof.
  unfold esc_line, unesc_line.
  destruct (beq_spec l endseq) as [->|H]; [reflexivity|reflexivity].
Qed.

Lemma unescape_escape s : unescape (escape s) = unescape s.
Proof.
  apply split_nl_inj. rewrite unescape_lines, escape_lines, unescape_lines, map_map.
  apply map_ext. apply unesc_esc_line.
Qed.

Definition no_token_line (s : bytes) : Prop := ~ In token (split_nl s).

Lemma unescape_id s : no_token_line s -> unescape s = s.
Proof.
  intros H. apply split_nl_inj. rewrite unescape_lines.
  rewrite <- (map_id (split_nl s)) at 2. apply map_ext_in.
  intros l Hl. unfold unesc_line. destruct (beq_spec l token) as [->|]; [contradiction|reflexivity].
Qed.

(* storage + comparison is injective on texts without an escape-token line *)
Lemma unescape_inj_on a b : no_token_line a -> no_token_line b -> unescape a = unescape b -> a = b.
Proof. intros Ha Hb. rewrite (unescape_id a Ha), (unescape_id b Hb). auto. Qed.

(* ---------- texts whose lines survive a scan ---------- *)

Definition safe_text (s : bytes) : Prop := Forall safe_line (split_nl s).

Lemma esc_line_safe l : safe_line l -> safe_line (esc_line l).
Proof. unfold esc_line. destruct (beq l endseq); auto using token_safe. Qed.

Lemma escape_safe s : safe_text s -> safe_text (escape s).
Proof.
  unfold safe_text. rewrite escape_lines. intros H. apply Forall_map.
  eapply Forall_impl; [|exact H]. apply esc_line_safe.
Qed.

(* ---------- frames as lines ---------- *)

Definition frame_lines (tid body : bytes) : list bytes := [] :: tid :: split_nl body ++ [endseq].

Lemma frame_unlines tid body : frame tid body = unlines (frame_lines tid body).
Proof.
  unfold frame, frame_lines. rewrite !unlines_cons, unlines_app, unlines_split_nl.
  cbn. rewrite <- !app_assoc. reflexivity.
Qed.

Lemma frame_lines_safe tid body :
  safe_line tid -> safe_text body -> Forall safe_line (frame_lines tid body).
Proof.
  intros Ht Hb. unfold frame_lines. constructor; [apply nil_safe|]. constructor; [assumption|].
  apply Forall_app. split; [assumption|]. constructor; [apply endseq_safe|constructor].
Qed.

Lemma frame_lines_app tid body rest :
  frame_lines tid body ++ rest = [] :: tid :: split_nl body ++ endseq :: rest.
Proof. unfold frame_lines. cbn [app]. rewrite <- app_assoc. reflexivity. Qed.

(* ---------- body extraction ---------- *)

Lemma take_body_app ls rest : ~ In endseq ls -> take_body (ls ++ endseq :: rest) = Some ls.
Proof.
  induction ls as [|l ls IH]; intros H; cbn [app take_body].
  - now rewrite beq_refl.
  - destruct (beq_spec l endseq) as [->|Hne]; [exfalso; apply H; now left|].
    rewrite IH; [reflexivity|]. intros Hin. apply H. now right.
Qed.

Lemma take_body_some_app l1 l2 b : take_body l1 = Some b -> take_body (l1 ++ l2) = Some b.
Proof.
  revert b. induction l1 as [|l l1 IH]; intros b; cbn; [discriminate|].
  destruct (beq l endseq); [auto|].
  destruct (take_body l1) as [b'|] eqn:E; cbn; [|discriminate].
  intros [= <-]. now rewrite (IH b' eq_refl).
Qed.

Lemma take_body_in_endseq ls : In endseq ls -> take_body ls <> None.
Proof.
  induction ls as [|l ls IH]; cbn; [intros []|].
  destruct (beq_spec l endseq) as [->|Hne]; [discriminate|].
  intros [H|H]; [congruence|]. destruct (take_body ls); [discriminate|]. now apply IH.
Qed.

Lemma take_body_no_endseq ls b : take_body ls = Some b -> ~ In endseq b.
Proof.
  revert b. induction ls as [|l ls IH]; intros b; cbn; [discriminate|].
  destruct (beq_spec l endseq) as [->|Hne]; [intros [= <-]; intros []|].
  destruct (take_body ls) as [b'|]; cbn; [|discriminate].
  intros [= <-] [H|H]; [congruence|]. now apply (IH b' eq_refl).
Qed.

(* ---------- header search ---------- *)

Lemma find_entry_notin tid l1 l2 n :
  ~ In tid l1 -> find_entry tid (l1 ++ l2) n = find_entry tid l2 (n + length l1).
Proof.
  revert n. induction l1 as [|l l1 IH]; intros n H; cbn.
  - now rewrite Nat.add_0_r.
  - destruct (beq_spec l tid) as [->|Hne]; [exfalso; apply H; now left|].
    rewrite IH by (intros Hin; apply H; now right). f_equal. lia.
Qed.

(* a found entry stays found, unchanged, when anything is appended *)
Lemma find_entry_some_app tid l1 l2 n r :
  find_entry tid l1 n = Some r -> find_entry tid (l1 ++ l2) n = Some r.
Proof.
  revert n. induction l1 as [|l l1 IH]; intros n; cbn; [discriminate|].
  destruct (beq l tid).
  - destruct (take_body l1) as [b|] eqn:E; [|discriminate].
    intros [= <-]. now rewrite (take_body_some_app _ l2 _ E).
  - apply IH.
Qed.

Lemma last_In {A} (l : list A) d : l <> [] -> In (last l d) l.
Proof.
  induction l as [|a l IH]; [congruence|]. intros _.
  destruct l as [|b l]; [now left|]. right. apply IH. discriminate.
Qed.

Definition complete (ls : list bytes) : Prop := ls = [] \/ last ls [] = endseq.

Lemma complete_tail l ls : complete (l :: ls) -> complete ls.
Proof.
  destruct ls as [|l2 ls]; [now left|]. intros [H|H]; [discriminate|]. right. exact H.
Qed.

(* in a file whose last line is a terminator, "not found" means the header line is absent *)
Lemma find_entry_none_notin tid ls n :
  tid <> endseq -> complete ls -> find_entry tid ls n = None -> ~ In tid ls.
Proof.
  intros Hte. revert n. induction ls as [|l ls IH]; intros n Hc; cbn; [intros _ []|].
  pose proof (complete_tail _ _ Hc) as Hc'.
  destruct (beq_spec l tid) as [->|Hne].
  - destruct (take_body ls) as [b|] eqn:E; [discriminate|]. exfalso.
    destruct ls as [|l2 ls].
    + destruct Hc as [Hc|Hc]; [discriminate|]. cbn in Hc. congruence.
    + destruct Hc' as [Hc'|Hc']; [discriminate|].
      apply (take_body_in_endseq (l2 :: ls)); [|assumption].
      rewrite <- Hc'. apply last_In. discriminate.
  - intros H [Hl|Hin]; [congruence|]. now apply (IH (S n) Hc' H).
Qed.

(* ---------- canonical files ---------- *)

Definition wf_lines (ls : list bytes) : Prop := Forall safe_line ls /\ complete ls.
Definition wf_file (f : bytes) : Prop := exists ls, f = unlines ls /\ wf_lines ls.

Lemma wf_file_nil : wf_file [].
Proof. exists []. repeat split; [constructor|now left]. Qed.

Lemma get_prev_unlines tid ls :
  Forall safe_line ls ->
  get_prev tid (unlines ls) =
  match find_entry tid ls 1 with
  | Some (b, n) => Some (trim_one_nl (unlines b), n)
  | None => None
  end.
Proof. intros H. unfold get_prev. now rewrite scan_unlines. Qed.

Lemma add_entry_unlines tid body ls :
  add_entry tid body (unlines ls) = unlines (ls ++ frame_lines tid body).
Proof. unfold add_entry. now rewrite frame_unlines, unlines_app. Qed.

Lemma complete_app_frame ls tid body : complete (ls ++ frame_lines tid body).
Proof.
  right. unfold frame_lines.
  replace (ls ++ [] :: tid :: split_nl body ++ [endseq])
    with ((ls ++ [] :: tid :: split_nl body) ++ [endseq])
    by (rewrite <- app_assoc; reflexivity).
  apply last_last.
Qed.

Lemma wf_lines_add ls tid body :
  wf_lines ls -> safe_line tid -> safe_text body -> wf_lines (ls ++ frame_lines tid body).
Proof.
  intros [Hs Hc] Ht Hb. split; [|apply complete_app_frame].
  apply Forall_app. split; [assumption|now apply frame_lines_safe].
Qed.

Lemma wf_file_add f tid body :
  wf_file f -> safe_line tid -> safe_text body -> wf_file (add_entry tid body f).
Proof.
  intros [ls [-> Hwf]] Ht Hb. exists (ls ++ frame_lines tid body).
  split; [apply add_entry_unlines|now apply wf_lines_add].
Qed.

(* reading back what was just appended under a header that was not found *)
Lemma get_prev_add_new f tid body :
  wf_file f -> safe_line tid -> tid <> [] -> tid <> endseq ->
  safe_text body -> ~ In endseq (split_nl body) ->
  get_prev tid f = None ->
  exists n, get_prev tid (add_entry tid body f) = Some (body, n).
Proof.
  intros [ls [-> [Hs Hc]]] Ht Hne Hnend Hb Hbe Hnone.
  rewrite get_prev_unlines in Hnone by assumption.
  assert (Hnf : find_entry tid ls 1 = None).
  { destruct (find_entry tid ls 1) as [[b n]|]; [discriminate|reflexivity]. }
  pose proof (find_entry_none_notin _ _ _ Hnend Hc Hnf) as Hnotin.
  rewrite add_entry_unlines.
  rewrite get_prev_unlines by (apply Forall_app; split; [assumption|now apply frame_lines_safe]).
  rewrite find_entry_notin by assumption.
  unfold frame_lines. cbn [find_entry].
  destruct (beq_spec [] tid) as [E|_]; [congruence|].
  rewrite beq_refl. rewrite take_body_app by assumption.
  rewrite unlines_split_nl, trim_one_nl_snoc. eauto.
Qed.

(* appending never changes what an existing header replays as *)
Lemma get_prev_add_other f tid body tid' r :
  wf_file f -> safe_line tid -> safe_text body ->
  get_prev tid' f = Some r -> get_prev tid' (add_entry tid body f) = Some r.
Proof.
  intros [ls [-> [Hs Hc]]] Ht Hb H.
  rewrite get_prev_unlines in H by assumption.
  rewrite add_entry_unlines.
  rewrite get_prev_unlines by (apply Forall_app; split; [assumption|now apply frame_lines_safe]).
  destruct (find_entry tid' ls 1) as [[b n]|] eqn:E; [|discriminate].
  now rewrite (find_entry_some_app _ _ _ _ _ E).
Qed.

(* ---------- files as lists of entries ---------- *)

Definition entry := (bytes * bytes)%type.
Definition entry_lines (e : entry) : list bytes := frame_lines (fst e) (snd e).
Definition render_lines (es : list entry) : list bytes := flat_map entry_lines es.
Definition render (es : list entry) : bytes := unlines (render_lines es).

Definition wf_entry (e : entry) : Prop :=
  safe_line (fst e) /\ fst e <> [] /\ fst e <> endseq /\
  safe_text (snd e) /\ ~ In endseq (split_nl (snd e)).

(* no body line of any entry equals the header [tid] *)
Definition no_collision (tid : bytes) (es : list entry) : Prop :=
  Forall (fun e => ~ In tid (split_nl (snd e))) es.

Lemma render_cons e es : render (e :: es) = frame (fst e) (snd e) ++ render es.
Proof. unfold render, render_lines. cbn [flat_map]. unfold entry_lines. now rewrite unlines_app, <- frame_unlines. Qed.

Lemma render_lines_safe es : Forall wf_entry es -> Forall safe_line (render_lines es).
Proof.
  induction 1 as [|e es [Hs [_ [_ [Hb _]]]] _ IH]; [constructor|].
  unfold render_lines. cbn [flat_map]. apply Forall_app.
  split; [now apply frame_lines_safe|assumption].
Qed.

Lemma render_lines_complete es : complete (render_lines es).
Proof.
  destruct es as [|e es] using rev_ind; [now left|].
  unfold render_lines. rewrite flat_map_app. cbn. rewrite app_nil_r. apply complete_app_frame.
Qed.

Lemma wf_file_render es : Forall wf_entry es -> wf_file (render es).
Proof.
  intros H. exists (render_lines es). split; [reflexivity|].
  split; [now apply render_lines_safe|apply render_lines_complete].
Qed.

Fixpoint lookup_entry (tid : bytes) (es : list entry) : option bytes :=
  match es with
  | [] => None
  | e :: r => if beq (fst e) tid then Some (snd e) else lookup_entry tid r
  end.

(* value part of the lookup in an entry-structured, collision-free file *)
Lemma find_entry_render_value tid es rest n :
  Forall wf_entry es -> no_collision tid es -> tid <> [] -> tid <> endseq ->
  match lookup_entry tid es with
  | Some b => exists k, find_entry tid (render_lines es ++ rest) n = Some (split_nl b, k)
  | None => find_entry tid (render_lines es ++ rest) n =
            find_entry tid rest (n + length (render_lines es))
  end.
Proof.
  intros Hwf Hnc Hne Hnend. revert n.
  induction es as [|e es IH]; intros n; cbn [lookup_entry render_lines flat_map app].
  - cbn. now rewrite Nat.add_0_r.
  - inversion Hwf as [|? ? [Hs [Hid [Hide [Hb Hbe]]]] Hwf']; subst.
    inversion Hnc as [|? ? Hc Hnc']; subst.
    fold (render_lines es). rewrite <- app_assoc.
    destruct (beq_spec (fst e) tid) as [E|Hne2].
    + subst tid. unfold entry_lines. rewrite frame_lines_app. cbn [find_entry].
      destruct (beq_spec [] (fst e)) as [E|_]; [congruence|].
      rewrite beq_refl, take_body_app by assumption. eexists. reflexivity.
    + assert (Hstep : forall k, find_entry tid (entry_lines e ++ render_lines es ++ rest) k =
                find_entry tid (render_lines es ++ rest) (S (S (S k) + length (split_nl (snd e))))).
      { intros k. unfold entry_lines. rewrite frame_lines_app. cbn [find_entry].
        destruct (beq_spec [] tid) as [E|_]; [congruence|].
        destruct (beq_spec (fst e) tid) as [E|_]; [congruence|].
        rewrite find_entry_notin by assumption. cbn [find_entry].
        destruct (beq_spec endseq tid) as [E|_]; [congruence|]. reflexivity. }
      rewrite Hstep.
      specialize (IH Hwf' Hnc' (S (S (S n) + length (split_nl (snd e))))).
      destruct (lookup_entry tid es) as [b|].
      * exact IH.
      * rewrite IH. f_equal. rewrite app_length. unfold entry_lines, frame_lines.
        cbn [length]. rewrite !app_length. cbn [length]. lia.
Qed.

Lemma get_prev_render tid es :
  Forall wf_entry es -> no_collision tid es -> tid <> [] -> tid <> endseq ->
  option_map fst (get_prev tid (render es)) = lookup_entry tid es.
Proof.
  intros Hwf Hnc Hne Hnend. unfold render.
  rewrite get_prev_unlines by now apply render_lines_safe.
  pose proof (find_entry_render_value tid es [] 1 Hwf Hnc Hne Hnend) as H.
  rewrite app_nil_r in H.
  destruct (lookup_entry tid es) as [b|].
  - destruct H as [k ->]. cbn. now rewrite unlines_split_nl, trim_one_nl_snoc.
  - rewrite H. reflexivity.
Qed.

(* ---------- rewrite ---------- *)

Lemma update_lines_copy tid snap ls rest :
  ~ In tid ls ->
  update_lines tid snap false (ls ++ rest) = unlines ls ++ update_lines tid snap false rest.
Proof.
  induction ls as [|l ls IH]; intros H; [reflexivity|].
  cbn [app update_lines]. destruct (beq_spec l tid) as [->|Hne]; [exfalso; apply H; now left|].
  rewrite IH by (intros Hin; apply H; now right).
  rewrite unlines_cons. rewrite <- !app_assoc. reflexivity.
Qed.

Lemma update_lines_skip tid snap ls rest :
  ~ In endseq ls ->
  update_lines tid snap true (ls ++ endseq :: rest) = update_lines tid snap false rest.
Proof.
  induction ls as [|l ls IH]; intros H; cbn [app update_lines].
  - now rewrite beq_refl.
  - destruct (beq_spec l endseq) as [->|Hne]; [exfalso; apply H; now left|].
    apply IH. intros Hin. apply H. now right.
Qed.

Definition replace_entry (tid snap : bytes) (e : entry) : entry :=
  if beq (fst e) tid then (tid, snap) else e.

Lemma render_lines_cons e es : render_lines (e :: es) = entry_lines e ++ render_lines es.
Proof. reflexivity. Qed.

Lemma update_lines_render tid snap es :
  Forall wf_entry es -> no_collision tid es -> tid <> [] -> tid <> endseq ->
  update_lines tid snap false (render_lines es) =
  unlines (render_lines (map (replace_entry tid snap) es)).
Proof.
  intros Hwf Hnc Hne Hnend.
  induction es as [|e es IH]; [reflexivity|].
  inversion Hwf as [|? ? [Hs [Hid [Hide [Hb Hbe]]]] Hwf']; subst.
  inversion Hnc as [|? ? Hc Hnc']; subst.
  cbn [map]. rewrite !render_lines_cons, unlines_app, <- (IH Hwf' Hnc').
  unfold entry_lines at 1. rewrite frame_lines_app. cbn [update_lines].
  destruct (beq_spec [] tid) as [E|_]; [congruence|].
  unfold replace_entry.
  destruct (beq_spec (fst e) tid) as [E|Hne2].
  - subst tid. rewrite update_lines_skip by assumption.
    unfold entry_lines, frame_lines. cbn [fst snd].
    rewrite !unlines_cons, unlines_app, unlines_split_nl.
    cbn [app]. rewrite <- !app_assoc. cbn [app]. rewrite unlines_cons. cbn [unlines map concat app].
    rewrite <- !app_assoc. reflexivity.
  - rewrite update_lines_copy by assumption.
    cbn [update_lines]. destruct (beq_spec endseq tid) as [E|_]; [congruence|].
    unfold entry_lines, frame_lines.
    rewrite !unlines_cons, unlines_app. cbn [app]. rewrite <- !app_assoc. cbn [app].
    rewrite unlines_cons. cbn [unlines map concat app]. rewrite <- !app_assoc. reflexivity.
Qed.

(* updateSnapshot on an entry-structured, collision-free file replaces exactly the
   entries under that header, byte for byte, and leaves everything else in place *)
Lemma update_entry_render tid snap es :
  Forall wf_entry es -> no_collision tid es -> tid <> [] -> tid <> endseq ->
  update_entry tid snap (render es) = render (map (replace_entry tid snap) es).
Proof.
  intros Hwf Hnc Hne Hnend. unfold update_entry, render.
  rewrite scan_unlines by now apply render_lines_safe.
  now apply update_lines_render.
Qed.
