From Coq Require Import String.
From Coq Require Import List NArith Arith Bool Lia.
Import ListNotations.
From Snaps Require Import Base.Bytes Base.Lines Base.Dec Base.Assoc.
From Snaps Require Import Model.PathModel Model.Api Model.Natural Model.Clean Model.RunFilter.
From Snaps Require Import Proofs.BytesP Proofs.DecP.

Lemma is_prefix_app p s : is_prefix p (p ++ s) = true.
Proof. induction p as [|c p IH]; cbn; [reflexivity|]. now rewrite N.eqb_refl, IH. Qed.

Lemma is_prefix_spec p s : is_prefix p s = true -> exists r, s = p ++ r.
Proof.
  revert s. induction p as [|c p IH]; intros s H; [now exists s|].
  destruct s as [|d s]; cbn in H; [discriminate|].
  apply andb_prop in H as [H1 H2]. apply N.eqb_eq in H1. subst d.
  destruct (IH s H2) as [r ->]. now exists r.
Qed.

(* the name part of an id "name - k": Go test names contain no space (testing rewrites them) *)
Definition no_space (name : bytes) : Prop := ~ In 32%N name.

Lemma take_until_sep_app name rest :
  no_space name -> take_until_sep (name ++ sep ++ rest) = name.
Proof.
  intros Hn. induction name as [|c name IH].
  - cbn [app]. unfold take_until_sep. destruct (sep ++ rest) eqn:E; [discriminate|].
    rewrite <- E. now rewrite is_prefix_app.
  - cbn [app]. cbn [take_until_sep].
    destruct (is_prefix sep (c :: name ++ sep ++ rest)) eqn:E.
    + exfalso. change sep with (32%N :: [45%N; 32%N]) in E. cbn [is_prefix] in E.
      apply andb_prop in E as [E _]. apply N.eqb_eq in E. subst c. apply Hn. now left.
    + f_equal. apply IH. intros Hin. apply Hn. now right.
Qed.

(* a skip of N protects N and its descendants N/... *)
Lemma skip_protects skipped n m k :
  In n skipped -> (m = n \/ exists r, m = n ++ [slash] ++ r) -> no_space m ->
  test_skipped skipped (snapshot_occ_fmt m k) = true.
Proof.
  intros Hin Hm Hs. unfold test_skipped, snapshot_occ_fmt.
  rewrite take_until_sep_app by assumption.
  apply existsb_exists. exists n. split; [assumption|].
  destruct Hm as [->|[r ->]].
  - now rewrite beq_refl.
  - apply orb_true_iff. right. rewrite app_assoc. apply is_prefix_app.
Qed.

(* ... and nothing else: not a sibling that merely shares a name prefix *)
Lemma skip_exact n m k :
  m <> n -> (forall r, m <> n ++ [slash] ++ r) -> no_space m ->
  test_skipped [n] (snapshot_occ_fmt m k) = false.
Proof.
  intros Hne Hp Hs. unfold test_skipped, snapshot_occ_fmt.
  rewrite take_until_sep_app by assumption. cbn [existsb]. rewrite orb_false_r.
  apply orb_false_iff. split.
  - now apply beq_neq.
  - destruct (is_prefix (n ++ [slash]) m) eqn:E; [|reflexivity].
    exfalso. apply is_prefix_spec in E as [r Hr]. apply (Hp r). now rewrite Hr, <- app_assoc.
Qed.

(* a skip-protected entry of an addressed file is kept and not reported, whatever -run is *)
Lemma skipped_entry_kept registered skipped n m k :
  In n skipped -> (m = n \/ exists r, m = n ++ [slash] ++ r) -> no_space m ->
  keep_id registered skipped (snapshot_occ_fmt m k) = true.
Proof.
  intros Hin Hm Hs. unfold keep_id. apply orb_true_iff. right. eapply skip_protects; eauto.
Qed.

(* with the empty pattern (all tests ran) nothing is protected by -run *)
Lemma re_match_empty s : re_match [] s = true.
Proof. destruct s; reflexivity. Qed.

Lemma test_skipped_run_empty skipped id : test_skipped_run skipped [] id = test_skipped skipped id.
Proof. unfold test_skipped_run. rewrite re_match_empty. cbn. now rewrite orb_false_r. Qed.
