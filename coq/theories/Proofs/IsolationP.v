(* Rewriting one slot leaves every other slot alone (entries view, collision-free files). *)
From Coq Require Import String.
From Coq Require Import List NArith Arith Bool Lia.
Import ListNotations.
From Snaps Require Import Base.Bytes Base.Lines Model.Frame.
From Snaps Require Import Proofs.BytesP Proofs.LinesP Proofs.FrameP.

Lemma replace_entry_other tid snap e : fst e <> tid -> replace_entry tid snap e = e.
Proof. intros H. unfold replace_entry. destruct (beq_spec (fst e) tid); [contradiction|reflexivity]. Qed.

Lemma replace_entry_same tid snap e : fst e = tid -> replace_entry tid snap e = (tid, snap).
Proof. intros H. unfold replace_entry. destruct (beq_spec (fst e) tid); [reflexivity|contradiction]. Qed.

Lemma lookup_replace_other tid snap tid' es :
  tid' <> tid -> lookup_entry tid' (map (replace_entry tid snap) es) = lookup_entry tid' es.
Proof.
  intros Hne. induction es as [|e es IH]; [reflexivity|]. cbn [map lookup_entry].
  destruct (beq_spec (fst e) tid) as [E|Hn].
  - rewrite (replace_entry_same _ _ _ E). cbn [fst snd]. rewrite E.
    destruct (beq_spec tid tid') as [E2|_]; [congruence|]. exact IH.
  - rewrite (replace_entry_other _ _ _ Hn). destruct (beq (fst e) tid'); [reflexivity|exact IH].
Qed.

Lemma lookup_replace_same tid snap es :
  lookup_entry tid es <> None -> lookup_entry tid (map (replace_entry tid snap) es) = Some snap.
Proof.
  induction es as [|e es IH]; [intros H; now contradiction H|]. cbn [map lookup_entry].
  destruct (beq_spec (fst e) tid) as [E|Hn].
  - intros _. rewrite (replace_entry_same _ _ _ E). cbn [fst snd]. now rewrite beq_refl.
  - intros H. rewrite (replace_entry_other _ _ _ Hn).
    destruct (beq_spec (fst e) tid); [contradiction|]. now apply IH.
Qed.

(* ids and their order are untouched: nothing is dropped, duplicated or reordered *)
Lemma replace_ids tid snap es : map fst (map (replace_entry tid snap) es) = map fst es.
Proof.
  induction es as [|e es IH]; [reflexivity|]. cbn [map]. rewrite IH. f_equal.
  destruct (beq_spec (fst e) tid) as [E|Hn].
  - rewrite (replace_entry_same _ _ _ E). now rewrite E.
  - now rewrite (replace_entry_other _ _ _ Hn).
Qed.

Lemma replace_others_identical tid snap es e :
  In e es -> fst e <> tid -> In e (map (replace_entry tid snap) es).
Proof.
  intros Hin Hne. apply in_map_iff. exists e. split; [|assumption].
  now apply replace_entry_other.
Qed.

Lemma replace_wf tid snap es :
  Forall wf_entry es -> wf_entry (tid, snap) -> Forall wf_entry (map (replace_entry tid snap) es).
Proof.
  intros H Hw. apply Forall_map. eapply Forall_impl; [|exact H].
  intros e He. unfold replace_entry. destruct (beq (fst e) tid); assumption.
Qed.

Lemma replace_no_collision h tid snap es :
  no_collision h es -> ~ In h (split_nl snap) -> no_collision h (map (replace_entry tid snap) es).
Proof.
  intros H Hs. unfold no_collision in *. apply Forall_map. eapply Forall_impl; [|exact H].
  intros e He. unfold replace_entry. destruct (beq (fst e) tid); assumption.
Qed.

(* rewriting slot tid: every other slot replays exactly what it replayed before *)
Lemma update_isolation tid snap tid' es :
  Forall wf_entry es -> wf_entry (tid, snap) ->
  no_collision tid es -> no_collision tid' es -> ~ In tid' (split_nl snap) ->
  tid <> [] -> tid <> endseq -> tid' <> [] -> tid' <> endseq -> tid' <> tid ->
  option_map fst (get_prev tid' (update_entry tid snap (render es))) =
  option_map fst (get_prev tid' (render es)).
Proof.
  intros Hwf Hws Hc Hc' Hs Hn He Hn' He' Hne.
  rewrite update_entry_render by assumption.
  rewrite get_prev_render; auto using replace_wf, replace_no_collision.
  rewrite get_prev_render by assumption.
  now apply lookup_replace_other.
Qed.

(* ... and the rewritten slot replays the new value *)
Lemma update_sets tid snap es :
  Forall wf_entry es -> wf_entry (tid, snap) -> no_collision tid es -> ~ In tid (split_nl snap) ->
  tid <> [] -> tid <> endseq -> lookup_entry tid es <> None ->
  option_map fst (get_prev tid (update_entry tid snap (render es))) = Some snap.
Proof.
  intros Hwf Hws Hc Hs Hn He Hl.
  rewrite update_entry_render by assumption.
  rewrite get_prev_render; auto using replace_wf, replace_no_collision.
  now apply lookup_replace_same.
Qed.

(* the rewritten file is again a sequence of complete frames: no residue of the old content *)
Lemma update_no_residue tid snap es :
  Forall wf_entry es -> wf_entry (tid, snap) -> no_collision tid es -> tid <> [] -> tid <> endseq ->
  exists es', update_entry tid snap (render es) = render es' /\ Forall wf_entry es' /\
              map fst es' = map fst es /\
              (forall e, In e es -> fst e <> tid -> In e es').
Proof.
  intros Hwf Hws Hc Hn He. exists (map (replace_entry tid snap) es).
  split; [now apply update_entry_render|]. split; [now apply replace_wf|].
  split; [apply replace_ids|]. intros e. apply replace_others_identical.
Qed.

(* ---------- order independence of rewrites of different slots ---------- *)

Lemma replace_entry_comm t1 s1 t2 s2 e :
  t1 <> t2 -> replace_entry t1 s1 (replace_entry t2 s2 e) = replace_entry t2 s2 (replace_entry t1 s1 e).
Proof.
  intros Hne.
  destruct (beq_spec (fst e) t2) as [E2|N2].
  - assert (N1 : fst e <> t1) by congruence.
    rewrite (replace_entry_same t2 s2 e E2), (replace_entry_other t1 s1 e N1).
    rewrite (replace_entry_same t2 s2 e E2). apply replace_entry_other. cbn [fst]. congruence.
  - rewrite (replace_entry_other t2 s2 e N2).
    destruct (beq_spec (fst e) t1) as [E1|N1].
    + rewrite (replace_entry_same t1 s1 e E1). symmetry. apply replace_entry_other. cbn [fst]. congruence.
    + rewrite (replace_entry_other t1 s1 e N1). symmetry. now apply replace_entry_other.
Qed.

(* two rewrites of different slots give the same file, byte for byte, in either order *)
Lemma updates_commute t1 s1 t2 s2 es :
  Forall wf_entry es -> wf_entry (t1, s1) -> wf_entry (t2, s2) ->
  no_collision t1 es -> no_collision t2 es ->
  ~ In t1 (split_nl s2) -> ~ In t2 (split_nl s1) -> t1 <> t2 ->
  update_entry t1 s1 (update_entry t2 s2 (render es)) =
  update_entry t2 s2 (update_entry t1 s1 (render es)).
Proof.
  intros Hwf W1 W2 Hc1 Hc2 H12 H21 Hne.
  pose proof W1 as [_ [Hn1 [He1 _]]]. pose proof W2 as [_ [Hn2 [He2 _]]]. cbn [fst] in *.
  rewrite (update_entry_render t2 s2 es) by assumption.
  rewrite (update_entry_render t1 s1 es) by assumption.
  rewrite update_entry_render; auto using replace_wf, replace_no_collision.
  rewrite update_entry_render; auto using replace_wf, replace_no_collision.
  rewrite !map_map. f_equal. apply map_ext. intros e. now apply replace_entry_comm.
Qed.

(* ... and after both, each of the two slots replays its own new value *)
Lemma updates_both_set t1 s1 t2 s2 es :
  Forall wf_entry es -> wf_entry (t1, s1) -> wf_entry (t2, s2) ->
  no_collision t1 es -> no_collision t2 es ->
  ~ In t1 (split_nl s1) -> ~ In t2 (split_nl s2) ->
  ~ In t1 (split_nl s2) -> ~ In t2 (split_nl s1) -> t1 <> t2 ->
  lookup_entry t1 es <> None -> lookup_entry t2 es <> None ->
  let f := update_entry t1 s1 (update_entry t2 s2 (render es)) in
  option_map fst (get_prev t1 f) = Some s1 /\ option_map fst (get_prev t2 f) = Some s2.
Proof.
  intros Hwf W1 W2 Hc1 Hc2 H11 H22 H12 H21 Hne L1 L2 f.
  pose proof W1 as [_ [Hn1 [He1 _]]]. pose proof W2 as [_ [Hn2 [He2 _]]]. cbn [fst] in *.
  assert (Hwf2 : Forall wf_entry (map (replace_entry t2 s2) es)) by auto using replace_wf.
  split; subst f.
  - rewrite (update_entry_render t2 s2 es) by assumption.
    apply update_sets; auto using replace_no_collision.
    rewrite lookup_replace_other by congruence. assumption.
  - rewrite updates_commute by assumption.
    assert (Hwf1 : Forall wf_entry (map (replace_entry t1 s1) es)) by auto using replace_wf.
    rewrite (update_entry_render t1 s1 es) by assumption.
    apply update_sets; auto using replace_no_collision.
    rewrite lookup_replace_other by congruence. assumption.
Qed.
