(* JsonP: lemmas about the JSON model (Model/Json.v, Model/JsonSpec.v). *)
From Coq Require Import String.
From Coq Require Import List NArith Arith Bool Lia Permutation.
Import ListNotations.
From Snaps Require Import Base.Bytes Base.Lines Proofs.BytesP Proofs.LinesP Model.Json Model.JsonSpec.

(* ================================================================== *)
(* whitespace                                                           *)

Lemma ws_bytes_nil : ws_bytes [].
Proof. reflexivity. Qed.

Lemma ws_bytes_cons c w : ws_bytes (c :: w) <-> is_ws c = true /\ ws_bytes w.
Proof. unfold ws_bytes; cbn [forallb]. apply andb_true_iff. Qed.

Lemma ws_bytes_app a b : ws_bytes a -> ws_bytes b -> ws_bytes (a ++ b).
Proof. unfold ws_bytes; intros Ha Hb. rewrite forallb_app, Ha, Hb. reflexivity. Qed.

Lemma ws_bytes_app_inv a b : ws_bytes (a ++ b) -> ws_bytes a /\ ws_bytes b.
Proof. unfold ws_bytes; rewrite forallb_app. apply andb_true_iff. Qed.

Lemma skip_ws_app w s : ws_bytes w -> skip_ws (w ++ s) = skip_ws s.
Proof.
  induction w as [|c w IH]; intros Hw; [reflexivity|].
  apply ws_bytes_cons in Hw. destruct Hw as [Hc Hw].
  cbn [app skip_ws]. rewrite Hc. auto.
Qed.

Lemma skip_ws_nonws c r : is_ws c = false -> skip_ws (c :: r) = c :: r.
Proof. intros Hc. cbn [skip_ws]. now rewrite Hc. Qed.

Lemma skip_ws_pre pre c r :
  ws_bytes pre -> is_ws c = false -> skip_ws (pre ++ c :: r) = c :: r.
Proof. intros Hp Hc. rewrite skip_ws_app by assumption. now apply skip_ws_nonws. Qed.

Lemma skip_ws_all w : ws_bytes w -> skip_ws w = [].
Proof. intros Hw. rewrite <- (app_nil_r w), skip_ws_app by assumption. reflexivity. Qed.

Lemma skip_ws_length s : length (skip_ws s) <= length s.
Proof.
  induction s as [|c r IH]; cbn [skip_ws]; [lia|].
  destruct (is_ws c); cbn [length]; lia.
Qed.

Lemma skip_ws_head_nonws s c r : skip_ws s = c :: r -> is_ws c = false.
Proof.
  induction s as [|x s IH]; cbn [skip_ws]; [discriminate|].
  destruct (is_ws x) eqn:Ex; [assumption|].
  intros [= <- <-]. assumption.
Qed.

(* skip_ws splits the input into whitespace and the rest *)
Lemma skip_ws_split s : exists w, ws_bytes w /\ s = w ++ skip_ws s.
Proof.
  induction s as [|c r [w [Hw Hr]]]; [exists []; split; [reflexivity|reflexivity]|].
  cbn [skip_ws]. destruct (is_ws c) eqn:Ec.
  - exists (c :: w). split; [apply ws_bytes_cons; auto|]. cbn [app]. congruence.
  - exists []. split; [reflexivity|reflexivity].
Qed.

(* ================================================================== *)
(* string tokens                                                        *)

Lemma scan_str_complete raw rest :
  str_ok raw -> scan_str (raw ++ c_quote :: rest) = Some (raw, rest).
Proof.
  induction 1 as [|c r Hlt Hq Hb Hok IH|e r He Hok IH|h1 h2 h3 h4 r H1 H2 H3 H4 Hok IH].
  - reflexivity.
  - cbn [app scan_str]. rewrite Hlt.
    destruct (N.eqb_spec c c_quote) as [E|_]; [contradiction|].
    destruct (N.eqb_spec c c_bslash) as [E|_]; [contradiction|].
    now rewrite IH.
  - cbn [app]. change (scan_str (c_bslash :: e :: r ++ c_quote :: rest))
      with (if is_esc1 e then
              match scan_str (r ++ c_quote :: rest) with
              | Some (raw, rest0) => Some (c_bslash :: e :: raw, rest0)
              | None => None
              end
            else if N.eqb e 117 then
              match r ++ c_quote :: rest with
              | h1 :: h2 :: h3 :: h4 :: r3 =>
                  if is_hex h1 && is_hex h2 && is_hex h3 && is_hex h4 then
                    match scan_str r3 with
                    | Some (raw, rest0) => Some (c_bslash :: e :: h1 :: h2 :: h3 :: h4 :: raw, rest0)
                    | None => None
                    end
                  else None
              | _ => None
              end
            else None).
    now rewrite He, IH.
  - cbn [app]. change (scan_str (c_bslash :: 117%N :: h1 :: h2 :: h3 :: h4 :: r ++ c_quote :: rest))
      with (if is_hex h1 && is_hex h2 && is_hex h3 && is_hex h4 then
              match scan_str (r ++ c_quote :: rest) with
              | Some (raw, rest0) =>
                  Some (c_bslash :: 117%N :: h1 :: h2 :: h3 :: h4 :: raw, rest0)
              | None => None
              end
            else None).
    now rewrite H1, H2, H3, H4, IH.
Qed.

Lemma scan_str_sound_aux n : forall s raw rest,
  length s <= n -> scan_str s = Some (raw, rest) ->
  str_ok raw /\ s = raw ++ c_quote :: rest.
Proof.
  induction n as [|n IH]; intros s raw rest Hlen H.
  - destruct s; [discriminate|cbn in Hlen; lia].
  - destruct s as [|c r]; [discriminate|]. cbn [scan_str] in H.
    destruct (N.ltb c 32) eqn:Elt; [discriminate|].
    destruct (N.eqb_spec c c_quote) as [Eq|Nq].
    { injection H as <- <-. subst c. split; [constructor|reflexivity]. }
    destruct (N.eqb_spec c c_bslash) as [Eb|Nb].
    + subst c. destruct r as [|e r2]; [discriminate|].
      destruct (is_esc1 e) eqn:Ee.
      * destruct (scan_str r2) as [[raw' rest']|] eqn:E2; [|discriminate].
        injection H as <- <-.
        apply IH in E2; [|cbn [length] in Hlen; lia].
        destruct E2 as [Hok ->]. split; [now constructor|reflexivity].
      * destruct (N.eqb_spec e 117) as [Eu|_]; [|discriminate]. subst e.
        destruct r2 as [|h1 [|h2 [|h3 [|h4 r3]]]]; try discriminate.
        destruct (is_hex h1) eqn:E1; [|discriminate].
        destruct (is_hex h2) eqn:E2'; [|discriminate].
        destruct (is_hex h3) eqn:E3; [|discriminate].
        destruct (is_hex h4) eqn:E4; [|discriminate].
        cbn [andb] in H.
        destruct (scan_str r3) as [[raw' rest']|] eqn:E5; [|discriminate].
        injection H as <- <-.
        apply IH in E5; [|cbn [length] in Hlen; lia].
        destruct E5 as [Hok ->]. split; [now constructor|reflexivity].
    + destruct (scan_str r) as [[raw' rest']|] eqn:E2; [|discriminate].
      injection H as <- <-.
      apply IH in E2; [|cbn [length] in Hlen; lia].
      destruct E2 as [Hok ->]. split; [now constructor|reflexivity].
Qed.

Lemma scan_str_sound s raw rest :
  scan_str s = Some (raw, rest) -> str_ok raw /\ s = raw ++ c_quote :: rest.
Proof. apply (scan_str_sound_aux (length s)). lia. Qed.

Lemma scan_str_shrinks s raw rest : scan_str s = Some (raw, rest) -> length rest < length s.
Proof.
  intros H. apply scan_str_sound in H. destruct H as [_ ->].
  rewrite app_length. cbn [length]. lia.
Qed.
(* ================================================================== *)
(* number tokens                                                        *)

Lemma digits_nil : digits [].
Proof. reflexivity. Qed.

Lemma digits_cons c d : digits (c :: d) <-> is_dig c = true /\ digits d.
Proof. unfold digits; cbn [forallb]. apply andb_true_iff. Qed.

Lemma span_dig_complete d rest :
  digits d -> no_dig rest = true -> span_dig (d ++ rest) = (d, rest).
Proof.
  induction d as [|c d IH]; intros Hd Hr.
  - destruct rest as [|c r]; [reflexivity|]. cbn in Hr. cbn [app span_dig].
    destruct (is_dig c); [discriminate|reflexivity].
  - apply digits_cons in Hd. destruct Hd as [Hc Hd].
    cbn [app span_dig]. rewrite Hc, IH by assumption. reflexivity.
Qed.

Lemma span_dig_sound s d t : span_dig s = (d, t) -> digits d /\ s = d ++ t.
Proof.
  revert d t. induction s as [|c r IH]; intros d t H; cbn [span_dig] in H.
  - injection H as <- <-. split; reflexivity.
  - destruct (is_dig c) eqn:Ec.
    + destruct (span_dig r) as [d' t'] eqn:E. injection H as <- <-.
      destruct (IH _ _ eq_refl) as [Hd ->]. split; [apply digits_cons; auto|reflexivity].
    + injection H as <- <-. split; reflexivity.
Qed.

Lemma scan_digits1_complete c d rest :
  is_dig c = true -> digits d -> no_dig rest = true ->
  scan_digits1 (c :: d ++ rest) = Some (c :: d, rest).
Proof.
  intros Hc Hd Hr. unfold scan_digits1. rewrite Hc, span_dig_complete by assumption. reflexivity.
Qed.

Lemma scan_digits1_sound s d t :
  scan_digits1 s = Some (d, t) ->
  exists c d', d = c :: d' /\ is_dig c = true /\ digits d' /\ s = d ++ t.
Proof.
  unfold scan_digits1. destruct s as [|c r]; [discriminate|].
  destruct (is_dig c) eqn:Ec; [|discriminate].
  destruct (span_dig r) as [d' t'] eqn:E. intros [= <- <-].
  apply span_dig_sound in E. destruct E as [Hd ->].
  exists c, d'. auto.
Qed.

Lemma is_dig_48 : is_dig 48 = true.
Proof. reflexivity. Qed.

Lemma scan_int_complete i rest :
  int_ok i -> no_dig rest = true -> scan_int (i ++ rest) = Some (i, rest).
Proof.
  intros [->|(c & d & -> & Hc & Hne & Hd)] Hr.
  - reflexivity.
  - cbn [app]. unfold scan_int.
    destruct (N.eqb_spec c 48) as [E|_]; [contradiction|].
    now apply scan_digits1_complete.
Qed.

Lemma scan_int_sound s i t : scan_int s = Some (i, t) -> int_ok i /\ s = i ++ t.
Proof.
  unfold scan_int. destruct s as [|c r]; [discriminate|].
  destruct (N.eqb_spec c 48) as [->|Hne].
  - intros [= <- <-]. split; [now left|reflexivity].
  - intros H. apply scan_digits1_sound in H.
    destruct H as (c' & d' & -> & Hc & Hd & Hs). injection Hs as <- ->.
    split; [|reflexivity]. right. exists c, d'. auto.
Qed.

Lemma scan_frac_complete f rest :
  frac_ok f -> no_dig rest = true -> no_dot rest = true ->
  scan_frac (f ++ rest) = Some (f, rest).
Proof.
  intros [->|(c & d & -> & Hc & Hd)] Hr Hdot.
  - cbn [app]. unfold scan_frac. destruct rest as [|c r]; [reflexivity|].
    cbn in Hdot. destruct (N.eqb c 46); [discriminate|reflexivity].
  - cbn [app]. unfold scan_frac. cbn [N.eqb Pos.eqb].
    rewrite scan_digits1_complete by assumption. reflexivity.
Qed.

Lemma scan_frac_sound s f t : scan_frac s = Some (f, t) -> frac_ok f /\ s = f ++ t.
Proof.
  unfold scan_frac. destruct s as [|c r].
  - intros [= <- <-]. split; [now left|reflexivity].
  - destruct (N.eqb_spec c 46) as [->|Hne].
    + destruct (scan_digits1 r) as [[d t']|] eqn:E; [|discriminate].
      intros [= <- <-]. apply scan_digits1_sound in E.
      destruct E as (c' & d' & -> & Hc & Hd & ->).
      split; [|reflexivity]. right. exists c', d'. auto.
    + intros [= <- <-]. split; [now left|reflexivity].
Qed.

Lemma scan_exp_complete e rest :
  exp_ok e -> no_dig rest = true -> no_e rest = true ->
  scan_exp (e ++ rest) = Some (e, rest).
Proof.
  intros [->|(x & sg & c & d & -> & Hx & Hsg & Hc & Hd)] Hr He.
  - cbn [app]. unfold scan_exp. destruct rest as [|c r]; [reflexivity|].
    cbn in He. destruct (N.eqb c 101); [discriminate|].
    destruct (N.eqb c 69); [discriminate|]. reflexivity.
  - cbn [app]. unfold scan_exp.
    assert (Ex : N.eqb x 101 || N.eqb x 69 = true).
    { destruct Hx as [->| ->]; reflexivity. }
    rewrite Ex.
    assert (Es : scan_sign ((sg ++ c :: d) ++ rest) = (sg, c :: d ++ rest)).
    { destruct Hsg as [->|[->| ->]]; cbn [app]; unfold scan_sign.
      - unfold is_dig in Hc. apply andb_true_iff in Hc. destruct Hc as [H1 H2].
        apply N.leb_le in H1. apply N.leb_le in H2.
        destruct (N.eqb_spec c 43) as [->|_]; [lia|].
        destruct (N.eqb_spec c 45) as [->|_]; [lia|]. reflexivity.
      - reflexivity.
      - reflexivity. }
    rewrite Es, scan_digits1_complete by assumption.
    reflexivity.
Qed.

Lemma scan_sign_sound s sg t :
  scan_sign s = (sg, t) -> (sg = [] \/ sg = [43%N] \/ sg = [45%N]) /\ s = sg ++ t.
Proof.
  unfold scan_sign. destruct s as [|c r].
  - intros [= <- <-]. auto.
  - destruct (N.eqb_spec c 43) as [->|H1]; cbn [orb].
    + intros [= <- <-]. auto.
    + destruct (N.eqb_spec c 45) as [->|H2].
      * intros [= <- <-]. auto.
      * intros [= <- <-]. auto.
Qed.

Lemma scan_exp_sound s e t : scan_exp s = Some (e, t) -> exp_ok e /\ s = e ++ t.
Proof.
  unfold scan_exp. destruct s as [|c r].
  - intros [= <- <-]. split; [now left|reflexivity].
  - destruct (N.eqb c 101 || N.eqb c 69) eqn:Ex.
    + destruct (scan_sign r) as [sg r'] eqn:Es.
      destruct (scan_digits1 r') as [[d t']|] eqn:Ed; [|discriminate].
      intros [= <- <-].
      apply scan_sign_sound in Es. destruct Es as [Hsg ->].
      apply scan_digits1_sound in Ed. destruct Ed as (c' & d' & -> & Hc & Hd & ->).
      split; [|cbn [app]; now rewrite <- app_assoc].
      right. exists c, sg, c', d'. repeat split; auto.
      apply orb_true_iff in Ex. destruct Ex as [Ex|Ex]; apply N.eqb_eq in Ex; auto.
    + intros [= <- <-]. split; [now left|reflexivity].
Qed.

Lemma scan_minus_sound s sg t : scan_minus s = (sg, t) -> sign_ok sg /\ s = sg ++ t.
Proof.
  unfold scan_minus. destruct s as [|c r].
  - intros [= <- <-]. split; [now left|reflexivity].
  - destruct (N.eqb_spec c c_minus) as [->|Hne].
    + intros [= <- <-]. split; [now right|reflexivity].
    + intros [= <- <-]. split; [now left|reflexivity].
Qed.

Lemma starts_with_app P a b :
  starts_with P (a ++ b) = match a with [] => starts_with P b | c :: _ => P c end.
Proof. destruct a; reflexivity. Qed.

Lemma int_ok_head i : int_ok i -> exists c d, i = c :: d /\ is_dig c = true.
Proof.
  intros [->|(c & d & -> & Hc & _)]; [exists 48%N, []|exists c, d]; auto.
Qed.

Lemma num_stop_no_dig rest : num_stop rest = true -> no_dig rest = true.
Proof.
  destruct rest as [|c r]; [reflexivity|]. cbn. intros H.
  repeat (apply andb_true_iff in H; destruct H as [H ?]). assumption.
Qed.
Lemma num_stop_no_dot rest : num_stop rest = true -> no_dot rest = true.
Proof.
  destruct rest as [|c r]; [reflexivity|]. cbn. intros H.
  repeat (apply andb_true_iff in H; destruct H as [H ?]). assumption.
Qed.
Lemma num_stop_no_e rest : num_stop rest = true -> no_e rest = true.
Proof.
  destruct rest as [|c r]; [reflexivity|]. cbn. intros H.
  repeat (apply andb_true_iff in H; destruct H as [H ?]).
  apply andb_true_iff. auto.
Qed.

Lemma exp_ok_starts e rest :
  exp_ok e -> num_stop rest = true ->
  no_dig (e ++ rest) = true /\ no_dot (e ++ rest) = true.
Proof.
  intros [->|(x & sg & c & d & -> & Hx & _)] Hr.
  - cbn [app]. split; [now apply num_stop_no_dig|now apply num_stop_no_dot].
  - destruct Hx as [->| ->]; split; reflexivity.
Qed.

Lemma frac_ok_starts f rest :
  frac_ok f -> no_dig rest = true -> no_dig (f ++ rest) = true.
Proof.
  intros [->|(c & d & -> & _)] Hr; [assumption|reflexivity].
Qed.

Lemma scan_num_complete raw rest :
  num_ok raw -> num_stop rest = true -> scan_num (raw ++ rest) = Some (raw, rest).
Proof.
  intros (sg & i & f & e & -> & Hsg & Hi & Hf & He) Hr.
  destruct (exp_ok_starts e rest He Hr) as [He1 He2].
  assert (Hm : scan_minus ((sg ++ i ++ f ++ e) ++ rest) = (sg, i ++ f ++ e ++ rest)).
  { destruct (int_ok_head i Hi) as (c & d & -> & Hc).
    destruct Hsg as [->| ->]; cbn [app]; unfold scan_minus.
    - destruct (N.eqb_spec c c_minus) as [->|_]; [discriminate Hc|].
      now rewrite <- !app_assoc.
    - cbn [N.eqb c_minus Pos.eqb]. now rewrite <- !app_assoc. }
  unfold scan_num. rewrite Hm.
  rewrite scan_int_complete; [|assumption|now apply frac_ok_starts].
  rewrite scan_frac_complete; [|assumption|assumption|assumption].
  rewrite scan_exp_complete;
    [|assumption|now apply num_stop_no_dig|now apply num_stop_no_e].
  reflexivity.
Qed.

Lemma scan_num_sound s raw rest :
  scan_num s = Some (raw, rest) -> num_ok raw /\ s = raw ++ rest.
Proof.
  unfold scan_num. destruct (scan_minus s) as [sg s1] eqn:Em.
  destruct (scan_int s1) as [[i s2]|] eqn:Ei; [|discriminate].
  destruct (scan_frac s2) as [[f s3]|] eqn:Ef; [|discriminate].
  destruct (scan_exp s3) as [[e s4]|] eqn:Ee; [|discriminate].
  intros [= <- <-].
  apply scan_minus_sound in Em. destruct Em as [Hsg ->].
  apply scan_int_sound in Ei. destruct Ei as [Hi ->].
  apply scan_frac_sound in Ef. destruct Ef as [Hf ->].
  apply scan_exp_sound in Ee. destruct Ee as [He ->].
  split; [exists sg, i, f, e; auto|].
  now rewrite <- !app_assoc.
Qed.

Lemma num_ok_nonempty raw : num_ok raw -> raw <> [].
Proof.
  intros (sg & i & f & e & -> & _ & Hi & _) H.
  destruct (int_ok_head i Hi) as (c & d & -> & _).
  destruct sg; discriminate.
Qed.

Lemma scan_num_shrinks s raw rest : scan_num s = Some (raw, rest) -> length rest < length s.
Proof.
  intros H. apply scan_num_sound in H. destruct H as [Hok ->].
  apply num_ok_nonempty in Hok. rewrite app_length.
  destruct raw; [contradiction|]. cbn [length]. lia.
Qed.

Lemma delim_start_num_stop rest : delim_start rest = true -> num_stop rest = true.
Proof.
  destruct rest as [|c r]; [reflexivity|]. cbn [delim_start num_stop]. intros H.
  unfold is_ws, is_dig, c_comma, c_rbrack, c_rbrace in *.
  repeat (apply orb_true_iff in H; destruct H as [H|H]);
    apply N.eqb_eq in H; subst c; reflexivity.
Qed.
(* ================================================================== *)
(* induction principle for the nested AST; well-formedness              *)

Lemma jv_ind' (P : jv -> Prop) :
  P JNull -> P JTrue -> P JFalse ->
  (forall raw, P (JNum raw)) -> (forall raw, P (JStr raw)) ->
  (forall l, Forall P l -> P (JArr l)) ->
  (forall m, Forall (fun kv : bytes * jv => P (snd kv)) m -> P (JObj m)) ->
  forall v, P v.
Proof.
  intros Hnull Htrue Hfalse Hnum Hstr Harr Hobj.
  fix IH 1. intros [ | | |raw|raw|l|m].
  - exact Hnull.
  - exact Htrue.
  - exact Hfalse.
  - apply Hnum.
  - apply Hstr.
  - apply Harr.
    exact ((fix go (l : list jv) : Forall P l :=
              match l with
              | [] => Forall_nil P
              | x :: r => Forall_cons x (IH x) (go r)
              end) l).
  - apply Hobj.
    exact ((fix go (m : list (bytes * jv)) : Forall (fun kv => P (snd kv)) m :=
              match m with
              | [] => Forall_nil _
              | kv :: r => Forall_cons kv (IH (snd kv)) (go r)
              end) m).
Qed.

Lemma wf_arr_cons x r : wf_json (JArr (x :: r)) <-> wf_json x /\ wf_json (JArr r).
Proof. reflexivity. Qed.

Lemma wf_obj_cons k x r :
  wf_json (JObj ((k, x) :: r)) <-> str_ok k /\ wf_json x /\ wf_json (JObj r).
Proof. reflexivity. Qed.

Lemma wf_arr_Forall l : wf_json (JArr l) <-> Forall wf_json l.
Proof.
  induction l as [|x r IH].
  - split; intros; [constructor|exact I].
  - rewrite wf_arr_cons, IH. split.
    + intros [Hx Hr]. now constructor.
    + intros H. inversion H; subst. auto.
Qed.

Lemma wf_obj_Forall m :
  wf_json (JObj m) <-> Forall (fun kv : bytes * jv => str_ok (fst kv) /\ wf_json (snd kv)) m.
Proof.
  induction m as [|[k x] r IH].
  - split; intros; [constructor|exact I].
  - rewrite wf_obj_cons, IH. split.
    + intros (Hk & Hx & Hr). constructor; auto.
    + intros H. inversion H; subst. cbn [fst snd] in *. tauto.
Qed.

(* ================================================================== *)
(* first bytes                                                          *)

Lemma is_dig_range c : is_dig c = true <-> (48 <= c <= 57)%N.
Proof.
  unfold is_dig. rewrite andb_true_iff, !N.leb_le. tauto.
Qed.

Lemma value_start_props c :
  value_start c = true ->
  is_ws c = false /\ N.eqb c c_rbrack = false /\ N.eqb c c_rbrace = false /\
  N.eqb c c_comma = false /\ N.eqb c c_colon = false.
Proof.
  unfold value_start. intros H.
  repeat (apply orb_true_iff in H; destruct H as [H|H]);
    try (apply N.eqb_eq in H; subst c; repeat split; reflexivity).
  apply is_dig_range in H.
  unfold is_ws, c_rbrack, c_rbrace, c_comma, c_colon.
  repeat split; repeat (apply orb_false_iff; split); apply N.eqb_neq; lia.
Qed.

Lemma num_ok_head raw :
  num_ok raw -> exists c t, raw = c :: t /\ (N.eqb c c_minus || is_dig c) = true.
Proof.
  intros (sg & i & f & e & -> & Hsg & Hi & _).
  destruct (int_ok_head i Hi) as (c & d & -> & Hc).
  destruct Hsg as [->| ->]; cbn [app].
  - exists c, (d ++ f ++ e). split; [reflexivity|]. rewrite Hc. apply orb_true_r.
  - eexists _, _. split; reflexivity.
Qed.

Lemma rcore_head v s :
  rcore v s -> wf_json v -> exists c t, s = c :: t /\ value_start c = true.
Proof.
  destruct 1; intros Hwf; try (eexists _, _; split; reflexivity).
  cbn in Hwf. destruct (num_ok_head raw Hwf) as (c & t & -> & Hc).
  exists c, t. split; [reflexivity|]. unfold value_start.
  apply orb_true_iff in Hc. destruct Hc as [Hc|Hc]; rewrite Hc;
    rewrite ?orb_true_r; reflexivity.
Qed.

Lemma delim_start_ws_app w c t :
  ws_bytes w ->
  (is_ws c || N.eqb c c_comma || N.eqb c c_rbrack || N.eqb c c_rbrace) = true ->
  delim_start (w ++ c :: t) = true.
Proof.
  intros Hw Hc. destruct w as [|x w]; cbn [app delim_start]; [assumption|].
  apply ws_bytes_cons in Hw. destruct Hw as [Hx _]. now rewrite Hx.
Qed.

Lemma rtail_delim r st rest : rtail r st -> delim_start (st ++ rest) = true.
Proof.
  destruct 1; rewrite <- app_assoc; cbn [app]; apply delim_start_ws_app; auto.
Qed.

Lemma rmtail_delim r st rest : rmtail r st -> delim_start (st ++ rest) = true.
Proof.
  destruct 1; rewrite <- app_assoc; cbn [app]; apply delim_start_ws_app; auto.
Qed.

(* ================================================================== *)
(* parsing a rendering                                                  *)

Lemma B_null : B "null" = [110; 117; 108; 108]%N. Proof. reflexivity. Qed.
Lemma B_true : B "true" = [116; 114; 117; 101]%N. Proof. reflexivity. Qed.
Lemma B_false : B "false" = [102; 97; 108; 115; 101]%N. Proof. reflexivity. Qed.

Lemma strip_prefix_app p s : strip_prefix p (p ++ s) = Some s.
Proof.
  induction p as [|x p IH]; [reflexivity|].
  cbn [app strip_prefix]. now rewrite N.eqb_refl.
Qed.

Lemma strip_prefix_sound p s t : strip_prefix p s = Some t -> s = p ++ t.
Proof.
  revert s. induction p as [|x p IH]; intros s; cbn [strip_prefix].
  - now intros [= ->].
  - destruct s as [|y s]; [discriminate|].
    destruct (N.eqb_spec x y) as [->|_]; [|discriminate].
    intros H. apply IH in H. now subst.
Qed.

Lemma parse_member_ok pv k w1 w2 tail x r3 :
  str_ok k -> ws_bytes w1 -> ws_bytes w2 -> pv tail = Some (x, r3) ->
  parse_member pv (w1 ++ quote k ++ w2 ++ c_colon :: tail) = Some ((k, x), r3).
Proof.
  intros Hk H1 H2 Hpv. unfold parse_member, quote.
  cbn [app]. rewrite skip_ws_pre by (assumption || reflexivity).
  cbn [N.eqb c_quote Pos.eqb].
  rewrite <- app_assoc. cbn [app].
  rewrite scan_str_complete by assumption.
  rewrite skip_ws_pre by (assumption || reflexivity).
  cbn [N.eqb c_colon Pos.eqb]. now rewrite Hpv.
Qed.

Ltac norm_app := repeat (rewrite <- app_assoc || rewrite <- app_comm_cons).
Ltac len_step :=
  first [ progress cbn [length] in *
        | match goal with
          | H : context [length (_ ++ _)] |- _ => rewrite app_length in H
          end
        | rewrite app_length ].
Ltac len_tac := repeat len_step; lia.

Theorem parse_rcore_all :
  (forall v s, rcore v s ->
     wf_json v -> forall pre rest fuel,
     ws_bytes pre -> delim_start rest = true -> length s <= fuel ->
     parse_val fuel (pre ++ s ++ rest) = Some (v, rest)) /\
  (forall r s, rtail r s ->
     wf_json (JArr r) -> forall rest k f,
     length s <= k -> length s <= f ->
     parse_elems (parse_val f) k (s ++ rest) = Some (r, rest)) /\
  (forall r s, rmtail r s ->
     wf_json (JObj r) -> forall rest k f,
     length s <= k -> length s <= f ->
     parse_members (parse_val f) k (s ++ rest) = Some (r, rest)).
Proof.
  apply rcore_rtail_rmtail_ind.
  - (* null *)
    intros _ pre rest fuel Hpre _ Hlen. rewrite B_null in *.
    destruct fuel as [|f]; [cbn in Hlen; lia|].
    cbn [parse_val]. cbn [app]. rewrite skip_ws_pre by (assumption || reflexivity).
    cbn [N.eqb c_lbrace c_lbrack c_quote c_minus Pos.eqb is_dig N.leb N.compare Pos.compare
           Pos.compare_cont orb andb].
    change (108 :: 108 :: rest)%N with ([108; 108]%N ++ rest) at 1.
    change (117 :: [108; 108] ++ rest)%N with (B "ull" ++ rest).
    now rewrite strip_prefix_app.
  - (* true *)
    intros _ pre rest fuel Hpre _ Hlen. rewrite B_true in *.
    destruct fuel as [|f]; [cbn in Hlen; lia|].
    cbn [parse_val]. cbn [app]. rewrite skip_ws_pre by (assumption || reflexivity).
    cbn [N.eqb c_lbrace c_lbrack c_quote c_minus Pos.eqb is_dig N.leb N.compare Pos.compare
           Pos.compare_cont orb andb].
    change (114 :: 117 :: 101 :: rest)%N with (B "rue" ++ rest).
    now rewrite strip_prefix_app.
  - (* false *)
    intros _ pre rest fuel Hpre _ Hlen. rewrite B_false in *.
    destruct fuel as [|f]; [cbn in Hlen; lia|].
    cbn [parse_val]. cbn [app]. rewrite skip_ws_pre by (assumption || reflexivity).
    cbn [N.eqb c_lbrace c_lbrack c_quote c_minus Pos.eqb is_dig N.leb N.compare Pos.compare
           Pos.compare_cont orb andb].
    change (97 :: 108 :: 115 :: 101 :: rest)%N with (B "alse" ++ rest).
    now rewrite strip_prefix_app.
  - (* number *)
    intros raw Hwf pre rest fuel Hpre Hrest Hlen. cbn in Hwf.
    destruct (num_ok_head raw Hwf) as (c & t & -> & Hc).
    destruct fuel as [|f]; [cbn in Hlen; lia|].
    assert (Hvs : value_start c = true).
    { unfold value_start. apply orb_true_iff in Hc. destruct Hc as [Hc|Hc]; rewrite Hc;
        rewrite ?orb_true_r; reflexivity. }
    destruct (value_start_props c Hvs) as (Hws & _).
    cbn [parse_val]. cbn [app]. rewrite skip_ws_pre by assumption.
    assert (E1 : N.eqb c c_lbrace = false /\ N.eqb c c_lbrack = false /\ N.eqb c c_quote = false).
    { apply orb_true_iff in Hc. destruct Hc as [Hc|Hc].
      - apply N.eqb_eq in Hc. subst c. repeat split; reflexivity.
      - apply is_dig_range in Hc. unfold c_lbrace, c_lbrack, c_quote.
        repeat split; apply N.eqb_neq; lia. }
    destruct E1 as (-> & -> & ->). rewrite Hc.
    change (c :: t ++ rest) with ((c :: t) ++ rest).
    rewrite scan_num_complete; [reflexivity|assumption|now apply delim_start_num_stop].
  - (* string *)
    intros raw Hwf pre rest fuel Hpre Hrest Hlen. cbn in Hwf.
    destruct fuel as [|f]; [cbn in Hlen; lia|].
    unfold quote. cbn [parse_val]. cbn [app].
    rewrite skip_ws_pre by (assumption || reflexivity).
    cbn [N.eqb c_lbrace c_lbrack c_quote Pos.eqb].
    rewrite <- app_assoc. cbn [app].
    now rewrite scan_str_complete.
  - (* [] *)
    intros w Hw _ pre rest fuel Hpre _ Hlen.
    destruct fuel as [|f]; [cbn in Hlen; lia|].
    cbn [parse_val]. cbn [app]. rewrite skip_ws_pre by (assumption || reflexivity).
    cbn [N.eqb c_lbrace c_lbrack Pos.eqb].
    rewrite <- app_assoc. cbn [app].
    rewrite skip_ws_pre by (assumption || reflexivity).
    cbn [N.eqb c_rbrack Pos.eqb]. reflexivity.
  - (* [x, ...] *)
    intros x r pre0 sx st Hpre0 Hx IHx Ht IHt Hwf pre rest fuel Hpre Hrest Hlen.
    apply wf_arr_cons in Hwf. destruct Hwf as [Hwx Hwr].
    destruct fuel as [|f]; [cbn in Hlen; lia|].
    destruct (rcore_head x sx Hx Hwx) as (c & t & -> & Hc).
    destruct (value_start_props c Hc) as (Hws & Hrb & _).
    cbn [parse_val]. cbn [app]. rewrite skip_ws_pre by (assumption || reflexivity).
    cbn [N.eqb c_lbrace c_lbrack Pos.eqb].
    norm_app. rewrite skip_ws_pre by assumption. rewrite Hrb.
    change (c :: t ++ st ++ rest) with ((c :: t) ++ st ++ rest).
    rewrite (IHx Hwx pre0 (st ++ rest) f Hpre0 (rtail_delim _ _ _ Ht)) by len_tac.
    rewrite (IHt Hwr rest f f) by len_tac. reflexivity.
  - (* {} *)
    intros w Hw _ pre rest fuel Hpre _ Hlen.
    destruct fuel as [|f]; [cbn in Hlen; lia|].
    cbn [parse_val]. cbn [app]. rewrite skip_ws_pre by (assumption || reflexivity).
    cbn [N.eqb c_lbrace Pos.eqb].
    rewrite <- app_assoc. cbn [app].
    rewrite skip_ws_pre by (assumption || reflexivity).
    cbn [N.eqb c_rbrace Pos.eqb]. reflexivity.
  - (* {k: x, ...} *)
    intros k x r w1 w2 w3 sx st H1 H2 H3 Hx IHx Ht IHt Hwf pre rest fuel Hpre Hrest Hlen.
    apply wf_obj_cons in Hwf. destruct Hwf as (Hk & Hwx & Hwr).
    destruct fuel as [|f]; [cbn in Hlen; lia|].
    cbn [parse_val]. cbn [app]. rewrite skip_ws_pre by (assumption || reflexivity).
    cbn [N.eqb c_lbrace Pos.eqb].
    norm_app.
    assert (Hsk : skip_ws (w1 ++ quote k ++ w2 ++ c_colon :: w3 ++ sx ++ st ++ rest) =
                  quote k ++ w2 ++ c_colon :: w3 ++ sx ++ st ++ rest).
    { unfold quote. cbn [app]. apply skip_ws_pre; [assumption|reflexivity]. }
    rewrite Hsk. unfold quote at 1. cbn [app].
    cbn [N.eqb c_quote c_rbrace Pos.eqb].
    rewrite (parse_member_ok (parse_val f) k w1 w2 (w3 ++ sx ++ st ++ rest) x (st ++ rest));
      [|assumption|assumption|assumption|].
    + rewrite (IHt Hwr rest f f) by len_tac. reflexivity.
    + apply IHx; [assumption|assumption|exact (rmtail_delim _ _ _ Ht)|].
      unfold quote in Hlen. len_tac.
  - (* tail: ] *)
    intros w Hw _ rest k f Hk Hf.
    destruct k as [|k]; [len_tac|].
    cbn [parse_elems]. norm_app. cbn [app].
    rewrite skip_ws_pre by (assumption || reflexivity).
    cbn [N.eqb c_rbrack Pos.eqb]. reflexivity.
  - (* tail: , y ... *)
    intros w pre y r sy st Hw Hpre Hy IHy Ht IHt Hwf rest k f Hk Hf.
    apply wf_arr_cons in Hwf. destruct Hwf as [Hwy Hwr].
    destruct k as [|k]; [len_tac|].
    cbn [parse_elems]. norm_app. cbn [app].
    rewrite skip_ws_pre by (assumption || reflexivity).
    cbn [N.eqb c_rbrack c_comma Pos.eqb].
    rewrite (IHy Hwy pre (st ++ rest) f Hpre (rtail_delim _ _ _ Ht)) by len_tac.
    rewrite (IHt Hwr rest k f) by len_tac. reflexivity.
  - (* mtail: } *)
    intros w Hw _ rest k f Hk Hf.
    destruct k as [|k]; [len_tac|].
    cbn [parse_members]. norm_app. cbn [app].
    rewrite skip_ws_pre by (assumption || reflexivity).
    cbn [N.eqb c_rbrace Pos.eqb]. reflexivity.
  - (* mtail: , k: y ... *)
    intros w w1 w2 w3 key y r sy st Hw H1 H2 H3 Hy IHy Ht IHt Hwf rest k f Hk Hf.
    apply wf_obj_cons in Hwf. destruct Hwf as (Hkey & Hwy & Hwr).
    destruct k as [|k]; [len_tac|].
    cbn [parse_members]. norm_app. cbn [app].
    rewrite skip_ws_pre by (assumption || reflexivity).
    cbn [N.eqb c_rbrace c_comma Pos.eqb].
    rewrite (parse_member_ok (parse_val f) key w1 w2 (w3 ++ sy ++ st ++ rest) y (st ++ rest));
      [|assumption|assumption|assumption|].
    + rewrite (IHt Hwr rest k f) by (unfold quote in *; len_tac). reflexivity.
    + apply IHy; [assumption|assumption|exact (rmtail_delim _ _ _ Ht)|].
      unfold quote in *. len_tac.
Qed.
(* ================================================================== *)
(* [render] is an instance of the rendering relation                    *)

Lemma ws_layout_sub l i : ws_layout l -> ws_layout (sub l i).
Proof. intros H p. apply H. Qed.

Lemma ws_layout_compact : ws_layout compact.
Proof. intros p. reflexivity. Qed.

Lemma render_tail_rtail r : forall l w,
  Forall (fun y => forall l', ws_layout l' -> rcore y (render_core l' y)) r ->
  ws_layout l -> ws_bytes w ->
  rtail r (w ++ render_tail (fun l' y => wrap l' (render_core l' y)) l r ++ [c_rbrack]).
Proof.
  induction r as [|y r IH]; intros l w Hall Hl Hw.
  - cbn [render_tail app]. now constructor.
  - inversion Hall as [|? ? Hy Hr]; subst.
    cbn [render_tail]. unfold wrap at 1.
    match goal with |- rtail _ ?s =>
      replace s with
        (w ++ c_comma :: sub l 0 [0] ++ render_core (sub l 0) y ++
         (sub l 0 [1] ++
          render_tail (fun l' y0 => wrap l' (render_core l' y0)) (sub l 1) r ++ [c_rbrack]))
        by (norm_app; reflexivity)
    end.
    constructor; auto.
    + apply Hl.
    + apply Hy. now apply ws_layout_sub.
    + apply IH; auto. now apply ws_layout_sub. apply Hl.
Qed.

Lemma render_mtail_rmtail r : forall l w,
  Forall (fun kv : bytes * jv =>
            forall l', ws_layout l' -> rcore (snd kv) (render_core l' (snd kv))) r ->
  ws_layout l -> ws_bytes w ->
  rmtail r (w ++ render_mtail (fun l' y => wrap l' (render_core l' y)) l r ++ [c_rbrace]).
Proof.
  induction r as [|[k y] r IH]; intros l w Hall Hl Hw.
  - cbn [render_mtail app]. now constructor.
  - inversion Hall as [|? ? Hy Hr]; subst. cbn [snd] in Hy.
    cbn [render_mtail]. unfold render_member, wrap at 1.
    match goal with |- rmtail _ ?s =>
      replace s with
        (w ++ c_comma :: l [5] ++ quote k ++ l [6] ++ c_colon ::
         sub l 0 [0] ++ render_core (sub l 0) y ++
         (sub l 0 [1] ++
          render_mtail (fun l' y0 => wrap l' (render_core l' y0)) (sub l 1) r ++ [c_rbrace]))
        by (norm_app; reflexivity)
    end.
    constructor; auto; try apply Hl.
    + apply Hy. now apply ws_layout_sub.
    + apply IH; auto. now apply ws_layout_sub. apply Hl.
Qed.

Theorem render_core_rcore v : forall l, ws_layout l -> rcore v (render_core l v).
Proof.
  induction v as [ | | |raw|raw|l0 IH|m IH] using jv_ind'; intros l Hl;
    try (cbn [render_core]; constructor).
  - destruct l0 as [|x r]; cbn [render_core].
    + constructor. apply Hl.
    + inversion IH as [|? ? Hx Hr]; subst. unfold wrap at 1.
      match goal with |- rcore _ ?s =>
        replace s with
          (c_lbrack :: sub l 3 [0] ++ render_core (sub l 3) x ++
           (sub l 3 [1] ++
            render_tail (fun l' y => wrap l' (render_core l' y)) (sub l 4) r ++ [c_rbrack]))
          by (norm_app; reflexivity)
      end.
      constructor.
      * apply Hl.
      * apply Hx. now apply ws_layout_sub.
      * apply render_tail_rtail; auto. now apply ws_layout_sub. apply Hl.
  - destruct m as [|[k x] r]; cbn [render_core].
    + constructor. apply Hl.
    + inversion IH as [|? ? Hx Hr]; subst. cbn [snd] in Hx.
      unfold render_member, wrap at 1.
      match goal with |- rcore _ ?s =>
        replace s with
          (c_lbrace :: l [5] ++ quote k ++ l [6] ++ c_colon ::
           sub l 3 [0] ++ render_core (sub l 3) x ++
           (sub l 3 [1] ++
            render_mtail (fun l' y => wrap l' (render_core l' y)) (sub l 4) r ++ [c_rbrace]))
          by (norm_app; reflexivity)
      end.
      constructor; try apply Hl.
      * apply Hx. now apply ws_layout_sub.
      * apply render_mtail_rmtail; auto. now apply ws_layout_sub. apply Hl.
Qed.

Theorem render_renders l v : ws_layout l -> renders v (render l v).
Proof.
  intros Hl. exists (l [0]), (render_core l v), (l [1]).
  repeat split; try apply Hl. now apply render_core_rcore.
Qed.

(* ================================================================== *)
(* parse o render = id                                                  *)

Lemma delim_start_ws w : ws_bytes w -> delim_start w = true.
Proof.
  destruct w as [|c w]; [reflexivity|]. intros H. apply ws_bytes_cons in H.
  destruct H as [H _]. cbn [delim_start]. now rewrite H.
Qed.

Theorem parse_renders v s fuel :
  renders v s -> wf_json v -> length s <= fuel -> parse fuel s = Some v.
Proof.
  intros (pre & sc & post & Hpre & Hpost & Hc & ->) Hwf Hlen.
  unfold parse.
  rewrite (proj1 parse_rcore_all v sc Hc Hwf pre post fuel Hpre (delim_start_ws _ Hpost))
    by len_tac.
  now rewrite skip_ws_all.
Qed.

(* parse_render: the parser inverts rendering, for every whitespace layout *)
Theorem parse_render l v fuel :
  wf_json v -> ws_layout l -> length (render l v) <= fuel -> parse fuel (render l v) = Some v.
Proof.
  intros Hwf Hl Hlen. apply parse_renders; auto. now apply render_renders.
Qed.

Corollary valid_render l v : wf_json v -> ws_layout l -> valid (render l v) = true.
Proof.
  intros Hwf Hl. unfold valid. rewrite parse_render; auto.
Qed.

(* with an arbitrary continuation: a rendering followed by a delimiter *)
Theorem parse_val_render l v rest fuel :
  wf_json v -> ws_layout l -> delim_start rest = true ->
  length (render_core l v) <= fuel ->
  parse_val fuel (l [0] ++ render_core l v ++ rest) = Some (v, rest).
Proof.
  intros Hwf Hl Hrest Hlen.
  exact (proj1 parse_rcore_all v (render_core l v) (render_core_rcore v l Hl) Hwf
           (l [0]) rest fuel (Hl _) Hrest Hlen).
Qed.
(* ================================================================== *)
(* soundness of the parser: every accepted input is a rendering of the  *)
(* returned (well-formed) value                                         *)

Lemma parse_elems_sound pv : pv_sound pv ->
  forall k s l rest, parse_elems pv k s = Some (l, rest) ->
    exists st, rtail l st /\ wf_json (JArr l) /\ s = st ++ rest.
Proof.
  intros Hpv. induction k as [|k IH]; intros s l rest H; [discriminate|].
  cbn [parse_elems] in H.
  destruct (skip_ws_split s) as (w & Hw & Hs).
  destruct (skip_ws s) as [|c r] eqn:Es; [discriminate|].
  destruct (N.eqb_spec c c_rbrack) as [->|_].
  - injection H as <- <-. exists (w ++ [c_rbrack]). split; [now constructor|].
    split; [exact I|]. rewrite Hs. norm_app. reflexivity.
  - destruct (N.eqb_spec c c_comma) as [->|_]; [|discriminate].
    destruct (pv r) as [[v r']|] eqn:Ev; [|discriminate].
    destruct (parse_elems pv k r') as [[l' r'']|] eqn:El; [|discriminate].
    injection H as <- <-.
    apply Hpv in Ev. destruct Ev as (w1 & sc & Hw1 & Hsc & Hwf & ->).
    apply IH in El. destruct El as (st & Hst & Hwfl & ->).
    exists (w ++ c_comma :: w1 ++ sc ++ st). split; [now constructor|].
    split; [apply wf_arr_cons; auto|]. rewrite Hs. norm_app. reflexivity.
Qed.

Lemma parse_member_sound pv : pv_sound pv ->
  forall s k v rest, parse_member pv s = Some ((k, v), rest) ->
    exists w1 w2 w3 sc, ws_bytes w1 /\ ws_bytes w2 /\ ws_bytes w3 /\ rcore v sc /\
      str_ok k /\ wf_json v /\ s = w1 ++ quote k ++ w2 ++ c_colon :: w3 ++ sc ++ rest.
Proof.
  intros Hpv s k v rest H. unfold parse_member in H.
  destruct (skip_ws_split s) as (w1 & Hw1 & Hs).
  destruct (skip_ws s) as [|c r] eqn:Es; [discriminate|].
  destruct (N.eqb_spec c c_quote) as [->|_]; [|discriminate].
  destruct (scan_str r) as [[k' r1]|] eqn:Ek; [|discriminate].
  destruct (skip_ws_split r1) as (w2 & Hw2 & Hr1).
  destruct (skip_ws r1) as [|c2 r2] eqn:Es2; [discriminate|].
  destruct (N.eqb_spec c2 c_colon) as [->|_]; [|discriminate].
  destruct (pv r2) as [[v' r3]|] eqn:Ev; [|discriminate].
  injection H as <- <- <-.
  apply scan_str_sound in Ek. destruct Ek as [Hk ->].
  apply Hpv in Ev. destruct Ev as (w3 & sc & Hw3 & Hsc & Hwf & ->).
  exists w1, w2, w3, sc. repeat split; auto.
  rewrite Hs. unfold quote. norm_app. cbn [app]. do 2 f_equal.
  apply app_inv_head in Hr1 || idtac.
  rewrite Hr1 at 1. norm_app. reflexivity.
Qed.

Lemma parse_members_sound pv : pv_sound pv ->
  forall k s l rest, parse_members pv k s = Some (l, rest) ->
    exists st, rmtail l st /\ wf_json (JObj l) /\ s = st ++ rest.
Proof.
  intros Hpv. induction k as [|k IH]; intros s l rest H; [discriminate|].
  cbn [parse_members] in H.
  destruct (skip_ws_split s) as (w & Hw & Hs).
  destruct (skip_ws s) as [|c r] eqn:Es; [discriminate|].
  destruct (N.eqb_spec c c_rbrace) as [->|_].
  - injection H as <- <-. exists (w ++ [c_rbrace]). split; [now constructor|].
    split; [exact I|]. rewrite Hs. norm_app. reflexivity.
  - destruct (N.eqb_spec c c_comma) as [->|_]; [|discriminate].
    destruct (parse_member pv r) as [[[key v] r']|] eqn:Ev; [|discriminate].
    destruct (parse_members pv k r') as [[l' r'']|] eqn:El; [|discriminate].
    injection H as <- <-.
    apply (parse_member_sound pv Hpv) in Ev.
    destruct Ev as (w1 & w2 & w3 & sc & Hw1 & Hw2 & Hw3 & Hsc & Hkey & Hwf & ->).
    apply IH in El. destruct El as (st & Hst & Hwfl & ->).
    exists (w ++ c_comma :: w1 ++ quote key ++ w2 ++ c_colon :: w3 ++ sc ++ st).
    split; [now constructor|].
    split; [apply wf_obj_cons; auto|]. rewrite Hs. norm_app. reflexivity.
Qed.

Theorem parse_val_sound f : pv_sound (parse_val f).
Proof.
  induction f as [|f IH]; intros s v rest H; [discriminate|].
  cbn [parse_val] in H.
  destruct (skip_ws_split s) as (w & Hw & Hs).
  destruct (skip_ws s) as [|c r] eqn:Es; [discriminate|].
  destruct (N.eqb_spec c c_lbrace) as [->|_].
  { (* object *)
    destruct (skip_ws_split r) as (w0 & Hw0 & Hr).
    destruct (skip_ws r) as [|c2 r2] eqn:Es2; [discriminate|].
    destruct (N.eqb_spec c2 c_rbrace) as [->|_].
    - injection H as <- <-. exists w, (c_lbrace :: w0 ++ [c_rbrace]).
      split; [assumption|]. split; [now constructor|]. split; [exact I|]. rewrite Hs, Hr. norm_app. reflexivity.
    - destruct (parse_member (parse_val f) r) as [[[k x] r']|] eqn:Em; [|discriminate].
      destruct (parse_members (parse_val f) f r') as [[l r'']|] eqn:El; [|discriminate].
      injection H as <- <-.
      apply (parse_member_sound _ IH) in Em.
      destruct Em as (w1 & w2 & w3 & sc & Hw1 & Hw2 & Hw3 & Hsc & Hk & Hwf & Hr').
      apply (parse_members_sound _ IH) in El. destruct El as (st & Hst & Hwfl & ->).
      exists w, (c_lbrace :: w1 ++ quote k ++ w2 ++ c_colon :: w3 ++ sc ++ st).
      split; [assumption|]. split; [now constructor|].
      split; [apply wf_obj_cons; auto|]. rewrite Hs, Hr'. norm_app. reflexivity. }
  destruct (N.eqb_spec c c_lbrack) as [->|_].
  { (* array *)
    destruct (skip_ws_split r) as (w0 & Hw0 & Hr).
    destruct (skip_ws r) as [|c2 r2] eqn:Es2; [discriminate|].
    destruct (N.eqb_spec c2 c_rbrack) as [->|_].
    - injection H as <- <-. exists w, (c_lbrack :: w0 ++ [c_rbrack]).
      split; [assumption|]. split; [now constructor|]. split; [exact I|]. rewrite Hs, Hr. norm_app. reflexivity.
    - destruct (parse_val f r) as [[x r']|] eqn:Ex; [|discriminate].
      destruct (parse_elems (parse_val f) f r') as [[l r'']|] eqn:El; [|discriminate].
      injection H as <- <-.
      apply IH in Ex. destruct Ex as (w1 & sc & Hw1 & Hsc & Hwf & Hr').
      apply (parse_elems_sound _ IH) in El. destruct El as (st & Hst & Hwfl & ->).
      exists w, (c_lbrack :: w1 ++ sc ++ st).
      split; [assumption|]. split; [now constructor|].
      split; [apply wf_arr_cons; auto|]. rewrite Hs, Hr'. norm_app. reflexivity. }
  destruct (N.eqb_spec c c_quote) as [->|_].
  { destruct (scan_str r) as [[raw r']|] eqn:Ek; [|discriminate].
    injection H as <- <-. apply scan_str_sound in Ek. destruct Ek as [Hk ->].
    exists w, (quote raw). split; [assumption|]. split; [constructor|]. split; [exact Hk|].
    rewrite Hs. unfold quote. norm_app. reflexivity. }
  destruct (N.eqb c c_minus || is_dig c) eqn:En.
  { destruct (scan_num (c :: r)) as [[raw r']|] eqn:Ek; [|discriminate].
    injection H as <- <-. apply scan_num_sound in Ek. destruct Ek as [Hk Hcr].
    exists w, raw. split; [assumption|]. split; [constructor|]. split; [exact Hk|]. rewrite Hs. now rewrite Hcr. }
  destruct (N.eqb_spec c 116) as [->|_].
  { destruct (strip_prefix (B "rue") r) as [r'|] eqn:Ep; [|discriminate].
    injection H as <- <-. apply strip_prefix_sound in Ep. subst r.
    exists w, (B "true"). split; [assumption|]. split; [constructor|]. split; [exact I|]. rewrite Hs. reflexivity. }
  destruct (N.eqb_spec c 102) as [->|_].
  { destruct (strip_prefix (B "alse") r) as [r'|] eqn:Ep; [|discriminate].
    injection H as <- <-. apply strip_prefix_sound in Ep. subst r.
    exists w, (B "false"). split; [assumption|]. split; [constructor|]. split; [exact I|]. rewrite Hs. reflexivity. }
  destruct (N.eqb_spec c 110) as [->|_]; [|discriminate].
  destruct (strip_prefix (B "ull") r) as [r'|] eqn:Ep; [|discriminate].
  injection H as <- <-. apply strip_prefix_sound in Ep. subst r.
  exists w, (B "null"). split; [assumption|]. split; [constructor|]. split; [exact I|]. rewrite Hs. reflexivity.
Qed.

(* parse_sound: accepted documents are renderings of a well-formed value *)
Theorem parse_sound fuel s v : parse fuel s = Some v -> renders v s /\ wf_json v.
Proof.
  unfold parse. destruct (parse_val fuel s) as [[v' r]|] eqn:E; [|discriminate].
  destruct (skip_ws r) as [|c r'] eqn:Er; [|discriminate]. intros [= <-].
  apply parse_val_sound in E. destruct E as (w & sc & Hw & Hsc & Hwf & ->).
  split; [|assumption]. exists w, sc, r. repeat split; auto.
  destruct (skip_ws_split r) as (w' & Hw' & Hr). rewrite Er, app_nil_r in Hr. now subst.
Qed.

Corollary parse_wf fuel s v : parse fuel s = Some v -> wf_json v.
Proof. intros H. now apply parse_sound in H. Qed.

Lemma rcore_nonempty v s : rcore v s -> wf_json v -> s <> [].
Proof.
  intros H Hwf. destruct (rcore_head v s H Hwf) as (c & t & -> & _). discriminate.
Qed.

Lemma parse_val_shrinks f s v r : parse_val f s = Some (v, r) -> length r < length s.
Proof.
  intros H. apply parse_val_sound in H. destruct H as (w & sc & _ & Hsc & Hwf & ->).
  destruct (rcore_head v sc Hsc Hwf) as (c & t & -> & _). len_tac.
Qed.

(* ================================================================== *)
(* fuel: [length s] is enough                                           *)

Lemma parse_elems_fuel pv1 pv2 n :
  pv_le n pv1 pv2 ->
  (forall s v r, pv1 s = Some (v, r) -> length r < length s) ->
  forall k1 s x, parse_elems pv1 k1 s = Some x ->
  forall k2, length s <= n -> length s <= k2 -> parse_elems pv2 k2 s = Some x.
Proof.
  intros Hle Hsh. induction k1 as [|k1 IH]; intros s x H k2 Hn Hk2; [discriminate|].
  cbn [parse_elems] in H.
  pose proof (skip_ws_length s) as Hsk.
  destruct (skip_ws s) as [|c r] eqn:Es; [discriminate|].
  destruct k2 as [|k2]; [destruct s; [discriminate Es|cbn [length] in Hk2; lia]|].
  cbn [parse_elems]. rewrite Es.
  destruct (N.eqb c c_rbrack); [assumption|].
  destruct (N.eqb c c_comma); [|discriminate].
  destruct (pv1 r) as [[v r']|] eqn:Ev; [|discriminate].
  cbn [length] in Hsk.
  rewrite (Hle r (v, r')) by (assumption || lia).
  apply Hsh in Ev.
  destruct (parse_elems pv1 k1 r') as [[l r'']|] eqn:El; [|discriminate].
  rewrite (IH r' (l, r'') El k2) by lia. assumption.
Qed.

Lemma parse_member_fuel pv1 pv2 n s x :
  pv_le n pv1 pv2 -> length s <= n ->
  parse_member pv1 s = Some x -> parse_member pv2 s = Some x.
Proof.
  intros Hle Hn H. unfold parse_member in *.
  pose proof (skip_ws_length s) as Hsk.
  destruct (skip_ws s) as [|c r]; [discriminate|].
  destruct (N.eqb c c_quote); [|discriminate].
  destruct (scan_str r) as [[k r1]|] eqn:Ek; [|discriminate].
  apply scan_str_shrinks in Ek.
  pose proof (skip_ws_length r1) as Hsk1.
  destruct (skip_ws r1) as [|c2 r2]; [discriminate|].
  destruct (N.eqb c2 c_colon); [|discriminate].
  destruct (pv1 r2) as [[v r3]|] eqn:Ev; [|discriminate].
  cbn [length] in *.
  rewrite (Hle r2 (v, r3)) by (assumption || lia). assumption.
Qed.

Lemma parse_member_shrinks pv s x r :
  (forall s v r, pv s = Some (v, r) -> length r < length s) ->
  parse_member pv s = Some (x, r) -> length r < length s.
Proof.
  intros Hsh H. unfold parse_member in H.
  pose proof (skip_ws_length s) as Hsk.
  destruct (skip_ws s) as [|c r0]; [discriminate|].
  destruct (N.eqb c c_quote); [|discriminate].
  destruct (scan_str r0) as [[k r1]|] eqn:Ek; [|discriminate].
  apply scan_str_shrinks in Ek.
  pose proof (skip_ws_length r1) as Hsk1.
  destruct (skip_ws r1) as [|c2 r2]; [discriminate|].
  destruct (N.eqb c2 c_colon); [|discriminate].
  destruct (pv r2) as [[v r3]|] eqn:Ev; [|discriminate].
  injection H as <- <-. apply Hsh in Ev. cbn [length] in *. lia.
Qed.

Lemma parse_members_fuel pv1 pv2 n :
  pv_le n pv1 pv2 ->
  (forall s v r, pv1 s = Some (v, r) -> length r < length s) ->
  forall k1 s x, parse_members pv1 k1 s = Some x ->
  forall k2, length s <= n -> length s <= k2 -> parse_members pv2 k2 s = Some x.
Proof.
  intros Hle Hsh. induction k1 as [|k1 IH]; intros s x H k2 Hn Hk2; [discriminate|].
  cbn [parse_members] in H.
  pose proof (skip_ws_length s) as Hsk.
  destruct (skip_ws s) as [|c r] eqn:Es; [discriminate|].
  destruct k2 as [|k2]; [destruct s; [discriminate Es|cbn [length] in Hk2; lia]|].
  cbn [parse_members]. rewrite Es.
  destruct (N.eqb c c_rbrace); [assumption|].
  destruct (N.eqb c c_comma); [|discriminate].
  destruct (parse_member pv1 r) as [[m r']|] eqn:Ev; [|discriminate].
  cbn [length] in Hsk.
  rewrite (parse_member_fuel pv1 pv2 n r (m, r') Hle) by (assumption || lia).
  apply (parse_member_shrinks pv1 _ _ _ Hsh) in Ev.
  destruct (parse_members pv1 k1 r') as [[l r'']|] eqn:El; [|discriminate].
  rewrite (IH r' (l, r'') El k2) by lia. assumption.
Qed.

Theorem parse_val_fuel f1 : forall s x, parse_val f1 s = Some x ->
  forall f2, length s <= f2 -> parse_val f2 s = Some x.
Proof.
  induction f1 as [|f1 IH]; intros s x H f2 Hf2; [discriminate|].
  cbn [parse_val] in H.
  pose proof (skip_ws_length s) as Hsk.
  destruct (skip_ws s) as [|c r] eqn:Es; [discriminate|].
  destruct f2 as [|f2]; [destruct s; [discriminate Es|cbn [length] in Hf2; lia]|].
  cbn [parse_val]. rewrite Es. cbn [length] in Hsk.
  assert (Hle : pv_le f2 (parse_val f1) (parse_val f2)).
  { intros s' x' Hs' Hx'. now apply (IH s' x' Hx'). }
  assert (Hsh : forall s v r, parse_val f1 s = Some (v, r) -> length r < length s).
  { intros s' v' r'. apply parse_val_shrinks. }
  destruct (N.eqb c c_lbrace).
  { pose proof (skip_ws_length r) as Hsk2.
    destruct (skip_ws r) as [|c2 r2]; [discriminate|].
    destruct (N.eqb c2 c_rbrace); [assumption|].
    destruct (parse_member (parse_val f1) r) as [[m r']|] eqn:Em; [|discriminate].
    rewrite (parse_member_fuel _ _ f2 r (m, r') Hle) by (assumption || lia).
    apply (parse_member_shrinks _ _ _ _ Hsh) in Em.
    destruct (parse_members (parse_val f1) f1 r') as [[l r'']|] eqn:El; [|discriminate].
    rewrite (parse_members_fuel _ _ f2 Hle Hsh f1 r' (l, r'') El f2) by lia. assumption. }
  destruct (N.eqb c c_lbrack).
  { destruct (skip_ws r) as [|c2 r2]; [discriminate|].
    destruct (N.eqb c2 c_rbrack); [assumption|].
    destruct (parse_val f1 r) as [[v r']|] eqn:Ev; [|discriminate].
    rewrite (IH r (v, r') Ev f2) by lia.
    apply Hsh in Ev.
    destruct (parse_elems (parse_val f1) f1 r') as [[l r'']|] eqn:El; [|discriminate].
    rewrite (parse_elems_fuel _ _ f2 Hle Hsh f1 r' (l, r'') El f2) by lia. assumption. }
  assumption.
Qed.

(* the result of [parse] does not depend on the fuel once it is at least [length s]:
   None at such a fuel means invalid, never out of fuel *)
Theorem parse_fuel_enough f1 f2 s :
  length s <= f1 -> length s <= f2 -> parse f1 s = parse f2 s.
Proof.
  intros H1 H2. unfold parse.
  destruct (parse_val f1 s) as [x|] eqn:E1.
  - now rewrite (parse_val_fuel f1 s x E1 f2 H2).
  - destruct (parse_val f2 s) as [y|] eqn:E2; [|reflexivity].
    rewrite (parse_val_fuel f2 s y E2 f1 H1) in E1. discriminate.
Qed.

Corollary valid_iff_parse s : valid s = true <-> exists v, parse (length s) s = Some v.
Proof.
  unfold valid. rewrite (parse_fuel_enough (S (length s)) (length s) s) by lia.
  destruct (parse (length s) s) as [v|]; cbn; split; intros H;
    [now exists v|reflexivity|discriminate|destruct H; discriminate].
Qed.
(* ================================================================== *)
(* the pretty printer produces a rendering                              *)

Lemma ws_tabs indent n : ws_bytes indent -> ws_bytes (tabs indent n).
Proof.
  intros Hi. unfold tabs. induction n as [|n IH]; cbn [repeat concat]; [reflexivity|].
  now apply ws_bytes_app.
Qed.

Lemma single_line_some width col o s : single_line width col o = Some s -> o = Some s.
Proof.
  unfold single_line. destruct (Nat.ltb (col + 3) width); [|discriminate].
  destruct o as [s'|]; [|discriminate].
  destruct (Nat.leb (length s') (width - col)); [|discriminate]. now intros [= ->].
Qed.

Lemma oneline_tail_rtail r : forall parts,
  Forall (fun y => forall s, oneline y = Some s -> rcore y s) r ->
  seq_opt (map oneline r) = Some parts ->
  rtail r (flat_map (fun b => B ", " ++ b) parts ++ [c_rbrack]).
Proof.
  induction r as [|y r IH]; intros parts Hall H; cbn [map seq_opt] in H.
  - injection H as <-. exact (rt_nil [] eq_refl).
  - inversion Hall as [|? ? Hy Hr]; subst.
    destruct (oneline y) as [a|] eqn:Ea; [|discriminate].
    destruct (seq_opt (map oneline r)) as [b|] eqn:Eb; [|discriminate].
    injection H as <-. cbn [flat_map].
    match goal with |- rtail _ ?s =>
      replace s with
        ([] ++ c_comma :: [32%N] ++ a ++ (flat_map (fun b0 => B ", " ++ b0) b ++ [c_rbrack]))
        by (norm_app; reflexivity)
    end.
    constructor; auto; reflexivity.
Qed.

Lemma oneline_rcore v : forall s, oneline v = Some s -> rcore v s.
Proof.
  induction v as [ | | |raw|raw|l IH|m IH] using jv_ind'; intros s H; cbn [oneline] in H;
    try (injection H as <-; constructor); try discriminate.
  destruct (seq_opt (map oneline l)) as [parts|] eqn:Ep; [|discriminate].
  injection H as <-.
  destruct l as [|x r]; cbn [map seq_opt] in Ep.
  - injection Ep as <-. exact (rc_arr0 [] eq_refl).
  - inversion IH as [|? ? Hx Hr]; subst.
    destruct (oneline x) as [a|] eqn:Ea; [|discriminate].
    destruct (seq_opt (map oneline r)) as [b|] eqn:Eb; [|discriminate].
    injection Ep as <-. unfold join_sep.
    match goal with |- rcore _ ?s =>
      replace s with
        (c_lbrack :: [] ++ a ++ (flat_map (fun b0 => B ", " ++ b0) b ++ [c_rbrack]))
        by (norm_app; reflexivity)
    end.
    constructor; [reflexivity|now apply Hx|now apply oneline_tail_rtail].
Qed.

Lemma pretty_tail_rtail (f : jv -> bytes) ind wend r :
  ws_bytes ind -> ws_bytes wend ->
  Forall (fun y => rcore y (f y)) r ->
  rtail r (flat_map (fun y => c_comma :: ind ++ f y) r ++ wend ++ [c_rbrack]).
Proof.
  intros Hind Hend. induction r as [|y r IH]; intros Hall.
  - cbn [flat_map app]. now constructor.
  - inversion Hall as [|? ? Hy Hr]; subst. cbn [flat_map].
    match goal with |- rtail _ ?s =>
      replace s with
        ([] ++ c_comma :: ind ++ f y ++
         (flat_map (fun y0 => c_comma :: ind ++ f y0) r ++ wend ++ [c_rbrack]))
        by (norm_app; reflexivity)
    end.
    constructor; auto. reflexivity.
Qed.

Lemma B_colon_space : B ": " = [c_colon; 32%N].
Proof. reflexivity. Qed.

Lemma pretty_mtail_rmtail (f : bytes -> jv -> bytes) ind wend r :
  ws_bytes ind -> ws_bytes wend ->
  Forall (fun kv : bytes * jv => rcore (snd kv) (f (fst kv) (snd kv))) r ->
  rmtail r (flat_map (fun kv : bytes * jv =>
                        let (k', y) := kv in c_comma :: ind ++ quote k' ++ B ": " ++ f k' y) r
            ++ wend ++ [c_rbrace]).
Proof.
  intros Hind Hend. induction r as [|[k y] r IH]; intros Hall.
  - cbn [flat_map app]. now constructor.
  - inversion Hall as [|? ? Hy Hr]; subst. cbn [fst snd] in Hy. cbn [flat_map].
    rewrite B_colon_space.
    match goal with |- rmtail _ ?s =>
      replace s with
        ([] ++ c_comma :: ind ++ quote k ++ [] ++ c_colon :: [32%N] ++ f k y ++
         (flat_map (fun kv : bytes * jv =>
                      let (k', y0) := kv in
                      c_comma :: ind ++ quote k' ++ [c_colon; 32%N] ++ f k' y0) r
          ++ wend ++ [c_rbrace]))
        by (norm_app; reflexivity)
    end.
    constructor; auto; try reflexivity.
Qed.

Theorem pretty_rcore width indent v :
  ws_bytes indent -> forall depth col, rcore v (pretty_v width indent depth col v).
Proof.
  intros Hi.
  induction v as [ | | |raw|raw|l IH|m IH] using jv_ind'; intros depth col;
    try (cbn [pretty_v]; constructor).
  - (* arrays *)
    cbn [pretty_v].
    destruct (single_line width col (oneline (JArr l))) as [s|] eqn:Es.
    { apply single_line_some in Es. now apply oneline_rcore. }
    destruct l as [|x r]; [exact (rc_arr0 [] eq_refl)|].
    inversion IH as [|? ? Hx Hr]; subst. cbv zeta.
    match goal with |- rcore _ (c_lbrack :: ?ind ++ ?px ++ flat_map ?g r ++ nl :: ?te ++ _) =>
      replace (c_lbrack :: ind ++ px ++ flat_map g r ++ nl :: te ++ [c_rbrack]) with
        (c_lbrack :: ind ++ px ++ (flat_map g r ++ (nl :: te) ++ [c_rbrack]))
        by (norm_app; reflexivity)
    end.
    constructor.
    + apply ws_bytes_cons. split; [reflexivity|now apply ws_tabs].
    + apply Hx.
    + apply (pretty_tail_rtail
               (fun y => pretty_v width indent (S depth) (S depth * length indent) y)).
      * apply ws_bytes_cons. split; [reflexivity|now apply ws_tabs].
      * apply ws_bytes_cons. split; [reflexivity|now apply ws_tabs].
      * eapply Forall_impl; [|exact Hr]. intros y Hy. apply Hy.
  - (* objects *)
    cbn [pretty_v].
    destruct m as [|[k x] r]; [exact (rc_obj0 [] eq_refl)|].
    inversion IH as [|? ? Hx Hr]; subst. cbn [snd] in Hx. cbv zeta.
    rewrite B_colon_space.
    match goal with
    | |- rcore _ (c_lbrace :: ?ind ++ ?qk ++ _ ++ ?px ++ flat_map ?g r ++ nl :: ?te ++ _) =>
      replace (c_lbrace :: ind ++ qk ++ [c_colon; 32%N] ++ px ++
               flat_map g r ++ nl :: te ++ [c_rbrace]) with
        (c_lbrace :: ind ++ qk ++ [] ++ c_colon :: [32%N] ++ px ++
         (flat_map g r ++ (nl :: te) ++ [c_rbrace]))
        by (norm_app; reflexivity)
    end.
    constructor.
    + apply ws_bytes_cons. split; [reflexivity|now apply ws_tabs].
    + reflexivity.
    + reflexivity.
    + apply Hx.
    + rewrite <- B_colon_space.
      apply (pretty_mtail_rmtail
               (fun k' y => pretty_v width indent (S depth)
                              (1 + S depth * length indent + length k' + 4) y)).
      * apply ws_bytes_cons. split; [reflexivity|now apply ws_tabs].
      * apply ws_bytes_cons. split; [reflexivity|now apply ws_tabs].
      * eapply Forall_impl; [|exact Hr]. intros [k' y] Hy. cbn [fst snd] in *. apply Hy.
Qed.

(* canon: the pretty printer output is the value at one particular whitespace layout *)
Theorem pretty_renders width indent depth col v :
  ws_bytes indent -> renders v (pretty_v width indent depth col v).
Proof.
  intros Hi. exists [], (pretty_v width indent depth col v), [].
  repeat split; try reflexivity. now apply pretty_rcore. now rewrite app_nil_r.
Qed.

(* lossless: parsing the pretty printer output gives the value back *)
Theorem parse_pretty width indent depth col v fuel :
  wf_json v -> ws_bytes indent ->
  length (pretty_v width indent depth col v) <= fuel ->
  parse fuel (pretty_v width indent depth col v) = Some v.
Proof.
  intros Hwf Hi Hlen. apply parse_renders; auto. now apply pretty_renders.
Qed.
(* ================================================================== *)
(* key order and sorting                                                *)

Lemma bytes_ltb_irrefl a : bytes_ltb a a = false.
Proof.
  induction a as [|x a IH]; [reflexivity|]. cbn [bytes_ltb].
  now rewrite N.ltb_irrefl.
Qed.

Lemma bytes_ltb_asym a : forall b, bytes_ltb a b = true -> bytes_ltb b a = false.
Proof.
  induction a as [|x a IH]; intros [|y b]; cbn [bytes_ltb]; try reflexivity; try discriminate.
  destruct (N.ltb_spec x y) as [Hxy|Hxy].
  - intros _. destruct (N.ltb_spec y x); [lia|reflexivity].
  - destruct (N.ltb_spec y x) as [Hyx|Hyx]; [discriminate|]. apply IH.
Qed.

Lemma bytes_ltb_trans a : forall b c,
  bytes_ltb a b = true -> bytes_ltb b c = true -> bytes_ltb a c = true.
Proof.
  induction a as [|x a IH]; intros [|y b] [|z c]; cbn [bytes_ltb]; try reflexivity;
    try discriminate.
  destruct (N.ltb_spec x y) as [Hxy|Hxy]; destruct (N.ltb_spec y z) as [Hyz|Hyz];
    destruct (N.ltb_spec x z) as [Hxz|Hxz]; try reflexivity; try lia; intros H1 H2.
  - destruct (N.ltb_spec z y); [discriminate|]. lia.
  - destruct (N.ltb_spec y x); [discriminate|]. lia.
  - destruct (N.ltb_spec y x); [discriminate|].
    destruct (N.ltb_spec z y); [discriminate|].
    destruct (N.ltb_spec z x); [lia|]. now apply (IH b c).
Qed.

Lemma bytes_ltb_total a : forall b, a <> b -> bytes_ltb a b = true \/ bytes_ltb b a = true.
Proof.
  induction a as [|x a IH]; intros [|y b] Hne; cbn [bytes_ltb]; auto; try congruence.
  destruct (N.ltb_spec x y) as [Hxy|Hxy]; [now left|].
  destruct (N.ltb_spec y x) as [Hyx|Hyx]; [now right|].
  assert (x = y) by lia. subst y. apply IH. congruence.
Qed.

Lemma member_ltb_asym a b : member_ltb a b = true -> member_ltb b a = false.
Proof. apply bytes_ltb_asym. Qed.

Lemma insert_member_perm x l : Permutation (x :: l) (insert_member x l).
Proof.
  induction l as [|y r IH]; cbn [insert_member]; [reflexivity|].
  destruct (member_ltb y x); [|reflexivity].
  rewrite perm_swap. now constructor.
Qed.

Lemma sort_members_perm m : Permutation m (sort_members m).
Proof.
  induction m as [|x m IH]; cbn [sort_members fold_right]; [reflexivity|].
  rewrite <- insert_member_perm. now constructor.
Qed.

Lemma insert_member_sorted x l : msorted l -> msorted (insert_member x l).
Proof.
  induction l as [|y r IH]; intros Hs; cbn [insert_member].
  - exact I.
  - destruct (member_ltb y x) eqn:E.
    + destruct r as [|z r']; cbn [insert_member msorted] in *.
      * split; [now apply member_ltb_asym|exact I].
      * destruct Hs as [Hzy Hs]. specialize (IH Hs). cbn [insert_member] in IH.
        destruct (member_ltb z x) eqn:E2; cbn [msorted] in *.
        -- tauto.
        -- split; [now apply member_ltb_asym|tauto].
    + cbn [msorted]. auto.
Qed.

Lemma sort_members_sorted m : msorted (sort_members m).
Proof.
  induction m as [|x m IH]; cbn [sort_members fold_right]; [exact I|].
  now apply insert_member_sorted.
Qed.

Lemma sort_members_sorted_id l : msorted l -> sort_members l = l.
Proof.
  induction l as [|x r IH]; intros Hs; [reflexivity|].
  cbn [sort_members fold_right]. fold (sort_members r).
  destruct r as [|y r']; [reflexivity|].
  cbn [msorted] in Hs. destruct Hs as [Hyx Hs].
  rewrite IH by assumption. cbn [insert_member]. now rewrite Hyx.
Qed.

Lemma sort_members_idem m : sort_members (sort_members m) = sort_members m.
Proof. apply sort_members_sorted_id, sort_members_sorted. Qed.

Lemma insert_member_map f x l :
  (forall kv : bytes * jv, fst (f kv) = fst kv) ->
  map f (insert_member x l) = insert_member (f x) (map f l).
Proof.
  intros Hf. induction l as [|y r IH]; cbn [insert_member map]; [reflexivity|].
  unfold member_ltb. rewrite !Hf.
  destruct (bytes_ltb (sort_key (fst y)) (sort_key (fst x))); cbn [map]; [now rewrite IH|reflexivity].
Qed.

Lemma sort_members_map f m :
  (forall kv : bytes * jv, fst (f kv) = fst kv) ->
  map f (sort_members m) = sort_members (map f m).
Proof.
  intros Hf. induction m as [|x m IH]; [reflexivity|].
  cbn [sort_members fold_right map]. fold (sort_members m). fold (sort_members (map f m)).
  now rewrite insert_member_map, IH.
Qed.

Lemma sort_child_fst (kv : bytes * jv) : fst (sort_child kv) = fst kv.
Proof. now destruct kv. Qed.

Lemma sort_v_obj m : sort_v (JObj m) = JObj (sort_members (map sort_child m)).
Proof. reflexivity. Qed.

Theorem sort_v_idem v : sort_v (sort_v v) = sort_v v.
Proof.
  induction v as [ | | |raw|raw|l IH|m IH] using jv_ind'; try reflexivity.
  - cbn [sort_v]. f_equal. rewrite map_map. apply map_ext_in.
    intros x Hx. rewrite Forall_forall in IH. now apply IH.
  - rewrite !sort_v_obj. f_equal.
    rewrite (sort_members_map sort_child) by apply sort_child_fst.
    rewrite sort_members_idem. f_equal.
    rewrite map_map. apply map_ext_in. intros [k x] Hx.
    rewrite Forall_forall in IH. specialize (IH _ Hx). cbn [snd] in IH.
    cbn [sort_child]. now rewrite IH.
Qed.

Corollary sort_if_idem b v : sort_if b (sort_if b v) = sort_if b v.
Proof. destruct b; [apply sort_v_idem|reflexivity]. Qed.

Lemma Forall_insert_member (P : bytes * jv -> Prop) x l :
  P x -> Forall P l -> Forall P (insert_member x l).
Proof.
  intros Hx Hl. eapply Permutation_Forall; [apply insert_member_perm|]. now constructor.
Qed.

Lemma Forall_sort_members (P : bytes * jv -> Prop) m :
  Forall P m -> Forall P (sort_members m).
Proof. intros H. eapply Permutation_Forall; [apply sort_members_perm|assumption]. Qed.

Theorem sort_v_wf v : wf_json v -> wf_json (sort_v v).
Proof.
  induction v as [ | | |raw|raw|l IH|m IH] using jv_ind'; intros Hwf; try assumption.
  - cbn [sort_v]. apply wf_arr_Forall. apply wf_arr_Forall in Hwf.
    apply Forall_map. rewrite Forall_forall in *. auto.
  - rewrite sort_v_obj. apply wf_obj_Forall. apply wf_obj_Forall in Hwf.
    apply Forall_sort_members, Forall_map. rewrite Forall_forall in *.
    intros [k x] Hx. specialize (Hwf _ Hx). specialize (IH _ Hx). cbn [fst snd sort_child] in *.
    tauto.
Qed.

Corollary sort_if_wf b v : wf_json v -> wf_json (sort_if b v).
Proof. destruct b; [apply sort_v_wf|auto]. Qed.

(* ================================================================== *)
(* snapshots                                                            *)

Lemma jtrim_one_nl_snoc s : trim_one_nl (s ++ [nl]) = s.
Proof. apply trim_one_nl_snoc. Qed.

Lemma snapshot_json_parse width indent sk s v :
  parse (S (length s)) s = Some v ->
  snapshot_json width indent sk s = pretty_v width indent 0 0 (sort_if sk v).
Proof.
  intros H. unfold snapshot_json, pretty. rewrite H. apply jtrim_one_nl_snoc.
Qed.

Lemma valid_parse s : valid s = true -> exists v, parse (S (length s)) s = Some v.
Proof.
  unfold valid. destruct (parse (S (length s)) s) as [v|]; [now exists v|discriminate].
Qed.

Lemma snapshot_json_renders width indent sk s v :
  renders v s -> wf_json v ->
  snapshot_json width indent sk s = pretty_v width indent 0 0 (sort_if sk v).
Proof.
  intros Hr Hwf. apply snapshot_json_parse. apply parse_renders; auto.
Qed.

(* whitespace-insensitivity *)
Theorem snapshot_ws_insensitive width indent sk v l1 l2 :
  wf_json v -> ws_layout l1 -> ws_layout l2 ->
  snapshot_json width indent sk (render l1 v) = snapshot_json width indent sk (render l2 v).
Proof.
  intros Hwf H1 H2.
  rewrite !(snapshot_json_renders width indent sk _ v); auto using render_renders.
Qed.

Theorem snapshot_renders_insensitive width indent sk v s1 s2 :
  wf_json v -> renders v s1 -> renders v s2 ->
  snapshot_json width indent sk s1 = snapshot_json width indent sk s2.
Proof.
  intros Hwf H1 H2. now rewrite !(snapshot_json_renders width indent sk _ v).
Qed.

(* lossless: the snapshot parses back to the (sorted) value *)
Theorem snapshot_lossless width indent sk s v fuel :
  parse (S (length s)) s = Some v -> ws_bytes indent ->
  length (snapshot_json width indent sk s) <= fuel ->
  parse fuel (snapshot_json width indent sk s) = Some (sort_if sk v).
Proof.
  intros Hp Hi Hlen. rewrite (snapshot_json_parse _ _ _ _ _ Hp) in *.
  apply parse_pretty; auto. apply sort_if_wf. now apply parse_wf in Hp.
Qed.

Corollary snapshot_valid width indent sk s :
  valid s = true -> ws_bytes indent -> valid (snapshot_json width indent sk s) = true.
Proof.
  intros Hv Hi. destruct (valid_parse s Hv) as [v Hp].
  unfold valid. rewrite (snapshot_lossless width indent sk s v _ Hp Hi) by lia. reflexivity.
Qed.

(* idempotence *)
Theorem snapshot_idempotent width indent sk s :
  valid s = true -> ws_bytes indent ->
  snapshot_json width indent sk (snapshot_json width indent sk s) =
  snapshot_json width indent sk s.
Proof.
  intros Hv Hi. destruct (valid_parse s Hv) as [v Hp].
  rewrite (snapshot_json_parse width indent sk _ (sort_if sk v)).
  - rewrite sort_if_idem. symmetry. now apply snapshot_json_parse.
  - apply snapshot_lossless; auto.
Qed.
(* ================================================================== *)
(* lens laws for simple paths                                           *)

Lemma upd_member_inv f k m m' :
  upd_member f k m = Some m' ->
  exists m1 kr x y m2,
    m = m1 ++ (kr, x) :: m2 /\ m' = m1 ++ (kr, y) :: m2 /\ key_is k kr = true /\
    Forall (fun kv : bytes * jv => key_is k (fst kv) = false) m1 /\ f x = Some y.
Proof.
  revert m'. induction m as [|[k' x] r IH]; intros m' H; cbn [upd_member] in H; [discriminate|].
  destruct (key_is k k') eqn:Ek.
  - destruct (f x) as [y|] eqn:Ef; [|discriminate]. injection H as <-.
    exists [], k', x, y, r. repeat split; auto.
  - destruct (upd_member f k r) as [r'|] eqn:Er; [|discriminate]. injection H as <-.
    destruct (IH r' eq_refl) as (m1 & kr & x0 & y & m2 & -> & -> & Hk & Hall & Hf).
    exists ((k', x) :: m1), kr, x0, y, m2. repeat split; auto.
Qed.

Lemma find_member_skip k m1 rest :
  Forall (fun kv : bytes * jv => key_is k (fst kv) = false) m1 ->
  find_member k (m1 ++ rest) = find_member k rest.
Proof.
  induction 1 as [|[k' x] m1 Hk _ IH]; [reflexivity|].
  cbn [app find_member]. cbn [fst] in Hk. now rewrite Hk.
Qed.

Lemma find_member_inv k m x :
  find_member k m = Some x ->
  exists m1 kr m2, m = m1 ++ (kr, x) :: m2 /\ key_is k kr = true /\
                   Forall (fun kv : bytes * jv => key_is k (fst kv) = false) m1.
Proof.
  induction m as [|[k' y] r IH]; cbn [find_member]; [discriminate|].
  destruct (key_is k k') eqn:Ek.
  - intros [= ->]. exists [], k', r. auto.
  - intros H. destruct (IH H) as (m1 & kr & m2 & -> & Hk & Hall).
    exists ((k', y) :: m1), kr, m2. repeat split; auto.
Qed.

Lemma upd_member_app f k m1 kr x m2 :
  Forall (fun kv : bytes * jv => key_is k (fst kv) = false) m1 -> key_is k kr = true ->
  upd_member f k (m1 ++ (kr, x) :: m2) =
  match f x with Some y => Some (m1 ++ (kr, y) :: m2) | None => None end.
Proof.
  induction 1 as [|[k' z] m1 Hk _ IH]; intros Hkr; cbn [app upd_member].
  - now rewrite Hkr.
  - cbn [fst] in Hk. rewrite Hk, IH by assumption. now destruct (f x).
Qed.

Lemma key_is_other k k' kr : key_is k kr = true -> k' <> k -> key_is k' kr = false.
Proof.
  unfold key_is. intros Hk Hne. apply beq_eq in Hk. subst k. now apply beq_neq.
Qed.

Lemma find_member_other k k' m1 kr x y m2 :
  key_is k kr = true -> k' <> k ->
  find_member k' (m1 ++ (kr, y) :: m2) = find_member k' (m1 ++ (kr, x) :: m2).
Proof.
  intros Hk Hne. induction m1 as [|[k2 z] m1 IH]; cbn [app find_member].
  - now rewrite (key_is_other k k' kr Hk Hne).
  - now rewrite IH.
Qed.

Lemma upd_nth_inv f i l l' :
  upd_nth f i l = Some l' ->
  exists l1 x y l2, l = l1 ++ x :: l2 /\ l' = l1 ++ y :: l2 /\ length l1 = i /\ f x = Some y.
Proof.
  revert i l'. induction l as [|x r IH]; intros i l' H; [destruct i; discriminate|].
  destruct i as [|j]; cbn [upd_nth] in H.
  - destruct (f x) as [y|] eqn:Ef; [|discriminate]. injection H as <-.
    exists [], x, y, r. auto.
  - destruct (upd_nth f j r) as [r'|] eqn:Er; [|discriminate]. injection H as <-.
    destruct (IH j r' Er) as (l1 & x0 & y & l2 & -> & -> & Hlen & Hf).
    exists (x :: l1), x0, y, l2. cbn [length app]. auto.
Qed.

Lemma upd_nth_app f l1 x l2 :
  upd_nth f (length l1) (l1 ++ x :: l2) =
  match f x with Some y => Some (l1 ++ y :: l2) | None => None end.
Proof.
  induction l1 as [|z l1 IH]; cbn [length app upd_nth]; [reflexivity|].
  rewrite IH. now destruct (f x).
Qed.

Lemma nth_error_mid {A} (l1 : list A) x l2 : nth_error (l1 ++ x :: l2) (length l1) = Some x.
Proof. induction l1; cbn; auto. Qed.

Lemma nth_error_mid_other {A} (l1 : list A) x y l2 j :
  j <> length l1 -> nth_error (l1 ++ y :: l2) j = nth_error (l1 ++ x :: l2) j.
Proof.
  revert j. induction l1 as [|z l1 IH]; intros j Hj; cbn [length app] in *.
  - destruct j; [lia|reflexivity].
  - destruct j; [reflexivity|]. cbn [nth_error]. apply IH. lia.
Qed.

Lemma nth_error_split {A} (l : list A) i x :
  nth_error l i = Some x -> exists l1 l2, l = l1 ++ x :: l2 /\ length l1 = i.
Proof.
  revert i. induction l as [|y r IH]; intros [|j]; cbn [nth_error]; try discriminate.
  - intros [= ->]. exists [], r. auto.
  - intros H. destruct (IH j H) as (l1 & l2 & -> & Hlen).
    exists (y :: l1), l2. cbn [length]. auto.
Qed.

(* put-get *)
Theorem get_set_same p : forall v x v', set v p x = Some v' -> get v' p = Some x.
Proof.
  induction p as [|st p IH]; intros v x v' H; cbn [set] in H.
  - injection H as <-. reflexivity.
  - destruct st as [k|i]; destruct v as [ | | |raw|raw|l|m]; try discriminate.
    + destruct (upd_member (fun y => set y p x) k m) as [m'|] eqn:E; [|discriminate].
      injection H as <-.
      destruct (upd_member_inv _ _ _ _ E) as (m1 & kr & x0 & y & m2 & -> & -> & Hk & Hall & Hf).
      cbn [get step_get]. rewrite find_member_skip by assumption.
      cbn [find_member]. rewrite Hk. now apply (IH x0).
    + destruct (upd_nth (fun y => set y p x) i l) as [l'|] eqn:E; [|discriminate].
      injection H as <-.
      destruct (upd_nth_inv _ _ _ _ E) as (l1 & x0 & y & l2 & -> & -> & <- & Hf).
      cbn [get step_get]. rewrite nth_error_mid. now apply (IH x0).
Qed.

Lemma pstep_eqb_eq a b : pstep_eqb a b = true -> a = b.
Proof.
  destruct a as [k1|i], b as [k2|j]; cbn [pstep_eqb]; try discriminate.
  - intros H. apply beq_eq in H. now subst.
  - intros H. apply Nat.eqb_eq in H. now subst.
Qed.

(* a set at p is invisible at every path q that does not overlap p *)
Theorem get_set_disjoint p : forall q v x v',
  set v p x = Some v' -> disjoint_paths p q = true -> get v' q = get v q.
Proof.
  induction p as [|st p IH]; intros q v x v' H Hd; [discriminate|].
  destruct q as [|sq q]; [discriminate|]. cbn [disjoint_paths] in Hd. cbn [set] in H.
  destruct st as [k|i]; destruct v as [ | | |raw|raw|l|m]; try discriminate.
  - destruct (upd_member (fun y => set y p x) k m) as [m'|] eqn:E; [|discriminate].
    injection H as <-.
    destruct (upd_member_inv _ _ _ _ E) as (m1 & kr & x0 & y & m2 & -> & -> & Hk & Hall & Hf).
    destruct (pstep_eqb (PKey k) sq) eqn:Eq.
    + apply pstep_eqb_eq in Eq. subst sq. cbn [get step_get].
      rewrite !find_member_skip by assumption. cbn [find_member]. rewrite Hk.
      now apply (IH q x0 x y).
    + destruct sq as [k'|j]; cbn [get step_get]; [|reflexivity].
      rewrite (find_member_other k k' m1 kr x0 y m2 Hk); [reflexivity|].
      intros ->. cbn [pstep_eqb] in Eq. now rewrite beq_refl in Eq.
  - destruct (upd_nth (fun y => set y p x) i l) as [l'|] eqn:E; [|discriminate].
    injection H as <-.
    destruct (upd_nth_inv _ _ _ _ E) as (l1 & x0 & y & l2 & -> & -> & <- & Hf).
    destruct (pstep_eqb (PIdx (length l1)) sq) eqn:Eq.
    + apply pstep_eqb_eq in Eq. subst sq. cbn [get step_get].
      rewrite !nth_error_mid. now apply (IH q x0 x y).
    + destruct sq as [k'|j]; cbn [get step_get]; [reflexivity|].
      rewrite (nth_error_mid_other l1 x0 y l2 j); [reflexivity|].
      intros ->. cbn [pstep_eqb] in Eq. now rewrite Nat.eqb_refl in Eq.
Qed.

(* set succeeds exactly on existing paths *)
Theorem set_some_iff_get p : forall v x, set v p x <> None <-> get v p <> None.
Proof.
  induction p as [|st p IH]; intros v x; cbn [set get]; [split; discriminate|].
  destruct st as [k|i]; destruct v as [ | | |raw|raw|l|m]; cbn [step_get]; try tauto.
  - destruct (find_member k m) as [x0|] eqn:Ef.
    + destruct (find_member_inv _ _ _ Ef) as (m1 & kr & m2 & -> & Hk & Hall).
      rewrite upd_member_app by assumption.
      rewrite <- (IH x0 x). destruct (set x0 p x); [split; intros _; discriminate|tauto].
    + split; [|congruence]. intros H. exfalso. apply H.
      destruct (upd_member (fun y => set y p x) k m) as [m'|] eqn:E; [|reflexivity].
      destruct (upd_member_inv _ _ _ _ E) as (m1 & kr & x0 & y & m2 & -> & _ & Hk & Hall & _).
      rewrite find_member_skip in Ef by assumption. cbn [find_member] in Ef.
      rewrite Hk in Ef. discriminate.
  - destruct (nth_error l i) as [x0|] eqn:Ef.
    + destruct (nth_error_split _ _ _ Ef) as (l1 & l2 & -> & <-).
      rewrite upd_nth_app.
      rewrite <- (IH x0 x). destruct (set x0 p x); [split; intros _; discriminate|tauto].
    + split; [|congruence]. intros H. exfalso. apply H.
      destruct (upd_nth (fun y => set y p x) i l) as [l'|] eqn:E; [|reflexivity].
      destruct (upd_nth_inv _ _ _ _ E) as (l1 & x0 & y & l2 & -> & _ & <- & _).
      rewrite nth_error_mid in Ef. discriminate.
Qed.

(* get-put: writing back what is there changes nothing *)
Theorem set_get_same p : forall v x, get v p = Some x -> set v p x = Some v.
Proof.
  induction p as [|st p IH]; intros v x; cbn [set get]; [now intros [= ->]|].
  destruct st as [k|i]; destruct v as [ | | |raw|raw|l|m]; cbn [step_get]; try discriminate.
  - destruct (find_member k m) as [x0|] eqn:Ef; [|discriminate]. intros H.
    destruct (find_member_inv _ _ _ Ef) as (m1 & kr & m2 & -> & Hk & Hall).
    rewrite upd_member_app by assumption. now rewrite (IH x0 x H).
  - destruct (nth_error l i) as [x0|] eqn:Ef; [|discriminate]. intros H.
    destruct (nth_error_split _ _ _ Ef) as (l1 & l2 & -> & <-).
    rewrite upd_nth_app. now rewrite (IH x0 x H).
Qed.

(* put-put: the second write wins *)
Theorem set_set_same p : forall v x y v1, set v p x = Some v1 -> set v1 p y = set v p y.
Proof.
  induction p as [|st p IH]; intros v x y v1 H; cbn [set] in *; [reflexivity|].
  destruct st as [k|i]; destruct v as [ | | |raw|raw|l|m]; try discriminate.
  - destruct (upd_member (fun z => set z p x) k m) as [m'|] eqn:E; [|discriminate].
    injection H as <-.
    destruct (upd_member_inv _ _ _ _ E) as (m1 & kr & x0 & x1 & m2 & -> & -> & Hk & Hall & Hf).
    rewrite !upd_member_app by assumption. now rewrite (IH x0 x y x1 Hf).
  - destruct (upd_nth (fun z => set z p x) i l) as [l'|] eqn:E; [|discriminate].
    injection H as <-.
    destruct (upd_nth_inv _ _ _ _ E) as (l1 & x0 & x1 & l2 & -> & -> & <- & Hf).
    rewrite !upd_nth_app. now rewrite (IH x0 x y x1 Hf).
Qed.

(* set keeps everything else in place: same keys in the same order / same length, and every
   other member or element is untouched *)
Theorem set_obj_shape k p m x v' :
  set (JObj m) (PKey k :: p) x = Some v' ->
  exists m1 kr x0 y m2,
    m = m1 ++ (kr, x0) :: m2 /\ v' = JObj (m1 ++ (kr, y) :: m2) /\
    key_is k kr = true /\ Forall (fun kv : bytes * jv => key_is k (fst kv) = false) m1 /\
    set x0 p x = Some y.
Proof.
  cbn [set]. destruct (upd_member (fun y => set y p x) k m) as [m'|] eqn:E; [|discriminate].
  intros [= <-].
  destruct (upd_member_inv _ _ _ _ E) as (m1 & kr & x0 & y & m2 & -> & -> & Hk & Hall & Hf).
  exists m1, kr, x0, y, m2. auto.
Qed.

Theorem set_arr_shape i p l x v' :
  set (JArr l) (PIdx i :: p) x = Some v' ->
  exists l1 x0 y l2,
    l = l1 ++ x0 :: l2 /\ v' = JArr (l1 ++ y :: l2) /\ length l1 = i /\ set x0 p x = Some y.
Proof.
  cbn [set]. destruct (upd_nth (fun y => set y p x) i l) as [l'|] eqn:E; [|discriminate].
  intros [= <-].
  destruct (upd_nth_inv _ _ _ _ E) as (l1 & x0 & y & l2 & -> & -> & Hlen & Hf).
  exists l1, x0, y, l2. auto.
Qed.

Corollary set_obj_keys k p m x m' :
  set (JObj m) (PKey k :: p) x = Some (JObj m') -> map fst m' = map fst m.
Proof.
  intros H. destruct (set_obj_shape _ _ _ _ _ H) as (m1 & kr & x0 & y & m2 & -> & [= ->] & _).
  rewrite !map_app. reflexivity.
Qed.

Lemma wf_obj_app m1 m2 : wf_json (JObj (m1 ++ m2)) <-> wf_json (JObj m1) /\ wf_json (JObj m2).
Proof.
  rewrite !wf_obj_Forall, Forall_app. tauto.
Qed.

Lemma wf_arr_app l1 l2 : wf_json (JArr (l1 ++ l2)) <-> wf_json (JArr l1) /\ wf_json (JArr l2).
Proof.
  rewrite !wf_arr_Forall, Forall_app. tauto.
Qed.

(* set preserves well-formedness *)
Theorem set_wf p : forall v x v',
  wf_json v -> wf_json x -> set v p x = Some v' -> wf_json v'.
Proof.
  induction p as [|st p IH]; intros v x v' Hv Hx H.
  - cbn [set] in H. now injection H as <-.
  - destruct st as [k|i]; destruct v as [ | | |raw|raw|l|m]; try discriminate.
    + destruct (set_obj_shape _ _ _ _ _ H) as (m1 & kr & x0 & y & m2 & -> & -> & _ & _ & Hf).
      apply wf_obj_app in Hv. destruct Hv as [H1 H2].
      apply wf_obj_cons in H2. destruct H2 as (Hk & Hx0 & H2).
      apply wf_obj_app. split; [assumption|]. apply wf_obj_cons.
      repeat split; auto. now apply (IH x0 x y).
    + destruct (set_arr_shape _ _ _ _ _ H) as (l1 & x0 & y & l2 & -> & -> & _ & Hf).
      apply wf_arr_app in Hv. destruct Hv as [H1 H2].
      apply wf_arr_cons in H2. destruct H2 as (Hx0 & H2).
      apply wf_arr_app. split; [assumption|]. apply wf_arr_cons.
      split; auto. now apply (IH x0 x y).
Qed.
(* ================================================================== *)
(* no line of a snapshot is a frame line                                *)

Lemma lw_mono s : forall b, lw b s = true -> lw true s = true.
Proof.
  induction s as [|c r IH]; intros b H; [reflexivity|]. cbn [lw] in *.
  destruct (N.eqb c nl).
  - apply andb_true_iff in H. now destruct H as [_ ->].
  - cbn [orb]. now apply (IH (b || witness_byte c)).
Qed.

Lemma lw_app x : forall b y, lw b x = true -> lw true y = true -> lw b (x ++ y) = true.
Proof.
  induction x as [|c r IH]; intros b y Hx Hy; cbn [app lw] in *.
  - now subst b.
  - destruct (N.eqb c nl).
    + apply andb_true_iff in Hx. destruct Hx as [-> Hx]. cbn [andb]. now apply IH.
    + now apply IH.
Qed.

Lemma lw_true_nonl t : no_nl_b t = true -> lw true t = true.
Proof.
  induction t as [|c r IH]; intros H; [reflexivity|].
  cbn [no_nl_b forallb] in H. apply andb_true_iff in H. destruct H as [Hc Hr].
  cbn [lw]. apply negb_true_iff in Hc. rewrite Hc. cbn [orb]. now apply IH.
Qed.

Lemma lw_nonl_app b t y : no_nl_b t = true -> lw b y = true -> lw b (t ++ y) = true.
Proof.
  revert b. induction t as [|c r IH]; intros b H Hy; [assumption|].
  cbn [no_nl_b forallb] in H. apply andb_true_iff in H. destruct H as [Hc Hr].
  cbn [app lw]. apply negb_true_iff in Hc. rewrite Hc. apply IH; [assumption|].
  destruct b; [assumption|]. cbn [orb]. destruct (witness_byte c); [|assumption].
  now apply (lw_mono y false).
Qed.

Lemma lw_nonl_witness b t : no_nl_b t = true -> has_witness t = true -> lw b t = true.
Proof.
  revert b. induction t as [|c r IH]; intros b H Hw; [discriminate|].
  cbn [no_nl_b forallb] in H. apply andb_true_iff in H. destruct H as [Hc Hr].
  cbn [has_witness existsb] in Hw. cbn [lw]. apply negb_true_iff in Hc. rewrite Hc.
  destruct (witness_byte c); cbn [orb] in *.
  - rewrite orb_true_r. now apply lw_true_nonl.
  - rewrite orb_false_r. now apply IH.
Qed.

Lemma no_nl_b_app a b : no_nl_b (a ++ b) = no_nl_b a && no_nl_b b.
Proof. apply forallb_app. Qed.

Lemma lw_split s : forall b, lw b s = true ->
  match split_nl s with
  | first :: rest => (b || has_witness first) = true /\ Forall (fun l => has_witness l = true) rest
  | [] => False
  end.
Proof.
  induction s as [|c r IH]; intros b H; cbn [lw split_nl] in *.
  - subst b. split; [reflexivity|constructor].
  - destruct (N.eqb c nl).
    + apply andb_true_iff in H. destruct H as [-> H]. split; [reflexivity|].
      specialize (IH false H). destruct (split_nl r) as [|f rs]; [contradiction|].
      destruct IH as [Hf Hrs]. constructor; assumption.
    + specialize (IH _ H). destruct (split_nl r) as [|f rs]; [contradiction|].
      destruct IH as [Hf Hrs]. split; [|assumption].
      cbn [has_witness existsb]. fold (has_witness f). now rewrite orb_assoc.
Qed.

Lemma lw_lines s line : lw false s = true -> In line (split_nl s) -> has_witness line = true.
Proof.
  intros H Hin. apply lw_split in H. destruct (split_nl s) as [|f rs]; [contradiction|].
  destruct H as [Hf Hrs]. destruct Hin as [<-|Hin]; [assumption|].
  rewrite Forall_forall in Hrs. now apply Hrs.
Qed.

Lemma frame_line_no_witness line : frame_line line = true -> has_witness line = false.
Proof.
  unfold frame_line. intros H. apply orb_true_iff in H.
  destruct H as [H|H]; apply beq_eq in H; subst line; reflexivity.
Qed.

(* tokens *)
Lemma forallb_imp {A} (P Q : A -> bool) l :
  (forall c, P c = true -> Q c = true) -> forallb P l = true -> forallb Q l = true.
Proof.
  intros HPQ. induction l as [|c r IH]; [reflexivity|]. cbn [forallb].
  intros H. apply andb_true_iff in H. destruct H as [Hc Hr].
  now rewrite (HPQ c Hc), IH.
Qed.

Lemma digits_no_nl d : digits d -> no_nl_b d = true.
Proof.
  apply forallb_imp. intros c Hc. apply is_dig_range in Hc.
  apply negb_true_iff, N.eqb_neq. unfold nl. lia.
Qed.

Lemma is_dig_witness c : is_dig c = true -> witness_byte c = true.
Proof.
  intros Hc. apply is_dig_range in Hc. unfold witness_byte.
  apply andb_true_iff. split; apply negb_true_iff, N.eqb_neq; lia.
Qed.

Lemma is_dig_no_nl c : is_dig c = true -> negb (N.eqb c nl) = true.
Proof.
  intros Hc. apply is_dig_range in Hc. apply negb_true_iff, N.eqb_neq. unfold nl. lia.
Qed.

Lemma num_ok_no_nl raw : num_ok raw -> no_nl_b raw = true.
Proof.
  intros (sg & i & f & e & -> & Hsg & Hi & Hf & He).
  rewrite !no_nl_b_app.
  assert (H1 : no_nl_b sg = true) by (destruct Hsg as [->| ->]; reflexivity).
  assert (H2 : no_nl_b i = true).
  { destruct Hi as [->|(c & d & -> & Hc & _ & Hd)]; [reflexivity|].
    cbn [no_nl_b forallb]. rewrite (is_dig_no_nl c Hc). now apply digits_no_nl. }
  assert (H3 : no_nl_b f = true).
  { destruct Hf as [->|(c & d & -> & Hc & Hd)]; [reflexivity|].
    cbn [no_nl_b forallb]. rewrite (is_dig_no_nl c Hc). cbn [andb]. now apply digits_no_nl. }
  assert (H4 : no_nl_b e = true).
  { destruct He as [->|(x & sg' & c & d & -> & Hx & Hsg' & Hc & Hd)]; [reflexivity|].
    change (x :: sg' ++ c :: d) with ([x] ++ sg' ++ [c] ++ d). rewrite !no_nl_b_app.
    assert (no_nl_b [x] = true) as -> by (destruct Hx as [->| ->]; reflexivity).
    assert (no_nl_b sg' = true) as -> by (destruct Hsg' as [->|[->| ->]]; reflexivity).
    cbn [no_nl_b forallb]. rewrite (is_dig_no_nl c Hc). now apply digits_no_nl. }
  now rewrite H1, H2, H3, H4.
Qed.

Lemma num_ok_witness raw : num_ok raw -> has_witness raw = true.
Proof.
  intros (sg & i & f & e & -> & _ & Hi & _).
  destruct (int_ok_head i Hi) as (c & d & -> & Hc).
  unfold has_witness. rewrite existsb_app. cbn [app existsb].
  rewrite (is_dig_witness c Hc). cbn [orb]. apply orb_true_r.
Qed.

Lemma is_esc1_no_nl e : is_esc1 e = true -> negb (N.eqb e nl) = true.
Proof.
  unfold is_esc1. intros H.
  repeat (apply orb_true_iff in H; destruct H as [H|H]); apply N.eqb_eq in H; subst e; reflexivity.
Qed.

Lemma is_hex_no_nl h : is_hex h = true -> negb (N.eqb h nl) = true.
Proof.
  unfold is_hex. intros H. apply negb_true_iff, N.eqb_neq. unfold nl.
  repeat (apply orb_true_iff in H; destruct H as [H|H]).
  - apply is_dig_range in H. lia.
  - apply andb_true_iff in H. destruct H as [H1 H2]. apply N.leb_le in H1. lia.
  - apply andb_true_iff in H. destruct H as [H1 H2]. apply N.leb_le in H1. lia.
Qed.

Lemma str_ok_no_nl raw : str_ok raw -> no_nl_b raw = true.
Proof.
  induction 1 as [|c r Hlt Hq Hb Hok IH|e r He Hok IH|h1 h2 h3 h4 r H1 H2 H3 H4 Hok IH];
    unfold no_nl_b in *; cbn [forallb] in *.
  - reflexivity.
  - rewrite IH, andb_true_r. apply negb_true_iff, N.eqb_neq. apply N.ltb_ge in Hlt. unfold nl. lia.
  - rewrite (is_esc1_no_nl e He), IH. reflexivity.
  - rewrite (is_hex_no_nl h1 H1), (is_hex_no_nl h2 H2), (is_hex_no_nl h3 H3),
      (is_hex_no_nl h4 H4), IH. reflexivity.
Qed.

Lemma quote_no_nl raw : str_ok raw -> no_nl_b (quote raw) = true.
Proof.
  intros H. unfold quote. change (c_quote :: raw ++ [c_quote]) with ([c_quote] ++ raw ++ [c_quote]).
  rewrite !no_nl_b_app, (str_ok_no_nl raw H). reflexivity.
Qed.

Lemma lw_quote b raw y : str_ok raw -> lw true y = true -> lw b (quote raw ++ y) = true.
Proof.
  intros H Hy. unfold quote. cbn [app lw]. cbn [N.eqb c_quote nl Pos.eqb witness_byte negb andb].
  rewrite orb_true_r. rewrite <- app_assoc. apply lw_nonl_app; [now apply str_ok_no_nl|].
  cbn [app lw]. exact Hy.
Qed.

Lemma no_nl_flat_map {A} (f : A -> bytes) r :
  Forall (fun b => no_nl_b (f b) = true) r -> no_nl_b (flat_map f r) = true.
Proof.
  induction 1 as [|b r Hb _ IH]; [reflexivity|]. cbn [flat_map]. now rewrite no_nl_b_app, Hb, IH.
Qed.

Lemma oneline_parts_no_nl r : forall parts,
  Forall (fun y => forall s, oneline y = Some s -> no_nl_b s = true) r ->
  seq_opt (map oneline r) = Some parts -> Forall (fun b => no_nl_b b = true) parts.
Proof.
  induction r as [|y r IH]; intros parts Hall H; cbn [map seq_opt] in H.
  - injection H as <-. constructor.
  - inversion Hall as [|? ? Hy Hr]; subst.
    destruct (oneline y) as [a|] eqn:Ea; [|discriminate].
    destruct (seq_opt (map oneline r)) as [b|] eqn:Eb; [|discriminate].
    injection H as <-. constructor; [now apply Hy|now apply IH].
Qed.

Lemma oneline_no_nl v : wf_json v -> forall s, oneline v = Some s -> no_nl_b s = true.
Proof.
  induction v as [ | | |raw|raw|l IH|m IH] using jv_ind'; intros Hwf s H; cbn [oneline] in H;
    try (injection H as <-; reflexivity); try discriminate.
  - injection H as <-. now apply num_ok_no_nl.
  - injection H as <-. now apply quote_no_nl.
  - destruct (seq_opt (map oneline l)) as [parts|] eqn:Ep; [|discriminate].
    injection H as <-.
    assert (Hparts : Forall (fun b => no_nl_b b = true) parts).
    { apply (oneline_parts_no_nl l); [|assumption].
      apply wf_arr_Forall in Hwf. rewrite Forall_forall in *. intros y Hy. apply IH; auto. }
    change (c_lbrack :: join_sep (B ", ") parts ++ [c_rbrack])
      with ([c_lbrack] ++ join_sep (B ", ") parts ++ [c_rbrack]).
    rewrite !no_nl_b_app.
    change (no_nl_b [c_lbrack]) with true. change (no_nl_b [c_rbrack]) with true.
    rewrite andb_true_r. cbn [andb].
    destruct parts as [|a bs]; [reflexivity|]. cbn [join_sep].
    inversion Hparts as [|? ? Ha Hbs]; subst. rewrite no_nl_b_app, Ha. cbn [andb].
    apply no_nl_flat_map. eapply Forall_impl; [|exact Hbs].
    intros b Hb. now rewrite no_nl_b_app, Hb.
Qed.

Lemma tabs_no_nl indent n : no_nl_b indent = true -> no_nl_b (tabs indent n) = true.
Proof.
  intros Hi. unfold tabs. induction n as [|n IH]; cbn [repeat concat]; [reflexivity|].
  now rewrite no_nl_b_app, Hi, IH.
Qed.

Lemma pretty_tail_lw (f : jv -> bytes) tb te close r :
  no_nl_b tb = true -> no_nl_b te = true -> witness_byte close = true -> N.eqb close nl = false ->
  Forall (fun y => lw false (f y) = true) r ->
  lw true (flat_map (fun y => c_comma :: (nl :: tb) ++ f y) r ++ nl :: te ++ [close]) = true.
Proof.
  intros Htb Hte Hcl Hcl2. induction r as [|y r IH]; intros Hall.
  - cbn [flat_map app lw]. rewrite ?N.eqb_refl. cbn [andb].
    apply lw_nonl_app; [assumption|]. cbn [lw]. rewrite Hcl2, Hcl. reflexivity.
  - inversion Hall as [|? ? Hy Hr]; subst. cbn [flat_map]. rewrite <- app_assoc.
    cbn [app lw]. cbn [N.eqb c_comma nl Pos.eqb orb]. rewrite ?N.eqb_refl. cbn [andb].
    rewrite <- app_assoc. apply lw_nonl_app; [assumption|].
    apply lw_app; [assumption|]. now apply IH.
Qed.

Lemma pretty_mtail_lw (f : bytes -> jv -> bytes) tb te r :
  no_nl_b tb = true -> no_nl_b te = true ->
  Forall (fun kv : bytes * jv => str_ok (fst kv) /\ lw false (f (fst kv) (snd kv)) = true) r ->
  lw true (flat_map (fun kv : bytes * jv =>
                       let (k', y) := kv in
                       c_comma :: (nl :: tb) ++ quote k' ++ B ": " ++ f k' y) r
           ++ nl :: te ++ [c_rbrace]) = true.
Proof.
  intros Htb Hte. induction r as [|[k y] r IH]; intros Hall.
  - cbn [flat_map app lw]. rewrite ?N.eqb_refl. cbn [andb].
    apply lw_nonl_app; [assumption|]. reflexivity.
  - inversion Hall as [|? ? Hy Hr]; subst. cbn [fst snd] in Hy. destruct Hy as [Hk Hy].
    cbn [flat_map]. rewrite <- app_assoc.
    cbn [app lw]. cbn [N.eqb c_comma nl Pos.eqb orb]. rewrite ?N.eqb_refl. cbn [andb].
    rewrite <- !app_assoc. apply lw_nonl_app; [assumption|].
    apply lw_quote; [assumption|].
    rewrite B_colon_space. cbn [app lw]. cbn [N.eqb c_colon nl Pos.eqb orb].
    apply lw_app; [now apply (lw_mono _ false)|]. now apply IH.
Qed.

Theorem pretty_lw width indent v :
  wf_json v -> no_nl_b indent = true ->
  forall depth col, lw false (pretty_v width indent depth col v) = true.
Proof.
  intros Hwf Hi. revert Hwf.
  induction v as [ | | |raw|raw|l IH|m IH] using jv_ind'; intros Hwf depth col;
    try reflexivity.
  - cbn [pretty_v]. cbn in Hwf.
    apply lw_nonl_witness; [now apply num_ok_no_nl|now apply num_ok_witness].
  - cbn [pretty_v]. cbn in Hwf. rewrite <- (app_nil_r (quote raw)). now apply lw_quote.
  - (* arrays *)
    cbn [pretty_v].
    destruct (single_line width col (oneline (JArr l))) as [s|] eqn:Es.
    { apply single_line_some in Es. pose proof (oneline_no_nl _ Hwf _ Es) as Hnl.
      cbn [oneline] in Es. destruct (seq_opt (map oneline l)); [|discriminate].
      injection Es as <-. apply lw_nonl_witness; [assumption|reflexivity]. }
    destruct l as [|x r]; [reflexivity|].
    apply wf_arr_cons in Hwf. destruct Hwf as [Hwx Hwr]. apply wf_arr_Forall in Hwr.
    inversion IH as [|? ? Hx Hr]; subst. cbv zeta.
    cbn [app lw]. cbn [N.eqb c_lbrack nl Pos.eqb orb witness_byte negb andb].
    rewrite ?N.eqb_refl. cbn [andb].
    rewrite <- ?app_assoc. apply lw_nonl_app; [now apply tabs_no_nl|].
    apply lw_app; [now apply Hx|].
    apply (pretty_tail_lw
             (fun y => pretty_v width indent (S depth) (S depth * length indent) y));
      try reflexivity; try (now apply tabs_no_nl).
    rewrite Forall_forall in *. intros y Hy. apply Hr; auto.
  - (* objects *)
    cbn [pretty_v].
    destruct m as [|[k x] r]; [reflexivity|].
    apply wf_obj_cons in Hwf. destruct Hwf as (Hk & Hwx & Hwr). apply wf_obj_Forall in Hwr.
    inversion IH as [|? ? Hx Hr]; subst. cbn [snd] in Hx. cbv zeta.
    cbn [app lw]. cbn [N.eqb c_lbrace nl Pos.eqb orb witness_byte negb andb].
    rewrite ?N.eqb_refl. cbn [andb].
    rewrite <- ?app_assoc. apply lw_nonl_app; [now apply tabs_no_nl|].
    apply lw_quote; [assumption|].
    rewrite B_colon_space. cbn [app lw]. cbn [N.eqb c_colon nl Pos.eqb orb].
    apply lw_app; [apply (lw_mono _ false); now apply Hx|].
    apply (pretty_mtail_lw
             (fun k' y => pretty_v width indent (S depth)
                            (1 + S depth * length indent + length k' + 4) y));
      try (now apply tabs_no_nl).
    rewrite Forall_forall in *. intros [k' y] Hy. specialize (Hwr _ Hy). specialize (Hr _ Hy).
    cbn [fst snd] in *. split; [tauto|]. apply Hr. tauto.
Qed.

(* canon_no_frame_lines: go-snaps stores JSON snapshots without escaping; no line of a JSON
   snapshot can be the end-of-snapshot line "---" or its escape "/-/-/-/" *)
Theorem canon_no_frame_lines width indent sk s line :
  valid s = true -> no_nl_b indent = true ->
  In line (split_nl (snapshot_json width indent sk s)) -> frame_line line = false.
Proof.
  intros Hv Hi Hin. destruct (valid_parse s Hv) as [v Hp].
  rewrite (snapshot_json_parse _ _ _ _ _ Hp) in Hin.
  assert (Hw : has_witness line = true).
  { eapply lw_lines; [|exact Hin]. apply pretty_lw; [|assumption].
    apply sort_if_wf. now apply parse_wf in Hp. }
  destruct (frame_line line) eqn:E; [|reflexivity].
  apply frame_line_no_witness in E. congruence.
Qed.

Corollary canon_no_frame_lines_default s line :
  valid s = true -> In line (split_nl (snapshot_json_default s)) ->
  line <> B "---" /\ line <> B "/-/-/-/".
Proof.
  intros Hv Hin.
  pose proof (canon_no_frame_lines 0 default_indent true s line Hv eq_refl Hin) as H.
  unfold frame_line in H. apply orb_false_iff in H. destruct H as [H1 H2].
  split; now apply beq_neq.
Qed.
(* ================================================================== *)
(* member order does not matter when keys are distinct                  *)

Lemma bytes_le_trans a b c :
  bytes_ltb b a = false -> bytes_ltb c b = false -> bytes_ltb c a = false.
Proof.
  intros Hab Hbc. destruct (bytes_ltb c a) eqn:Hca; [|reflexivity]. exfalso.
  destruct (beq_spec a b) as [->|Hne1]; [congruence|].
  destruct (beq_spec b c) as [->|Hne2]; [congruence|].
  destruct (bytes_ltb_total a b Hne1) as [H1|H1]; [|congruence].
  destruct (bytes_ltb_total b c Hne2) as [H2|H2]; [|congruence].
  pose proof (bytes_ltb_trans a b c H1 H2) as H3.
  apply bytes_ltb_asym in H3. congruence.
Qed.

Lemma msorted_tail x r : msorted (x :: r) -> msorted r.
Proof. destruct r as [|y r]; cbn [msorted]; tauto. Qed.

Lemma msorted_strong x r :
  msorted (x :: r) -> Forall (fun y => member_ltb y x = false) r.
Proof.
  revert x. induction r as [|y r IH]; intros x Hs; [constructor|].
  cbn [msorted] in Hs. destruct Hs as [Hyx Hs]. constructor; [assumption|].
  specialize (IH y Hs). eapply Forall_impl; [|exact IH].
  intros z Hzy. unfold member_ltb in *. eapply bytes_le_trans; eassumption.
Qed.

Lemma msorted_perm_unique l1 : forall l2,
  msorted l1 -> msorted l2 -> Permutation l1 l2 -> NoDup (map mkey l1) -> l1 = l2.
Proof.
  induction l1 as [|a r1 IH]; intros l2 Hs1 Hs2 Hp Hnd.
  - apply Permutation_nil in Hp. now subst.
  - destruct l2 as [|b r2]; [apply Permutation_sym, Permutation_nil in Hp; discriminate|].
    assert (Hab : a = b).
    { assert (Ha : In a (b :: r2)) by (eapply Permutation_in; [exact Hp|now left]).
      assert (Hb : In b (a :: r1))
        by (eapply Permutation_in; [apply Permutation_sym; exact Hp|now left]).
      destruct Ha as [Ha|Ha]; [now subst|].
      destruct Hb as [Hb|Hb]; [now subst|].
      pose proof (msorted_strong _ _ Hs2) as H2. rewrite Forall_forall in H2.
      pose proof (msorted_strong _ _ Hs1) as H1. rewrite Forall_forall in H1.
      specialize (H2 a Ha). specialize (H1 b Hb). unfold member_ltb in *.
      destruct (beq_spec (mkey a) (mkey b)) as [Heq|Hne].
      - exfalso. cbn [map] in Hnd. inversion Hnd as [|? ? Hnotin _]; subst.
        apply Hnotin. rewrite Heq. now apply in_map.
      - destruct (bytes_ltb_total _ _ Hne) as [H|H]; unfold mkey in H; congruence. }
    subst b. f_equal. apply IH.
    + now apply msorted_tail in Hs1.
    + now apply msorted_tail in Hs2.
    + now apply Permutation_cons_inv in Hp.
    + cbn [map] in Hnd. now inversion Hnd.
Qed.

Lemma sort_members_perm_eq a b :
  Permutation a b -> NoDup (map mkey a) -> sort_members a = sort_members b.
Proof.
  intros Hp Hnd. apply msorted_perm_unique.
  - apply sort_members_sorted.
  - apply sort_members_sorted.
  - rewrite <- (sort_members_perm a), <- (sort_members_perm b). exact Hp.
  - eapply Permutation_NoDup; [|exact Hnd]. apply Permutation_map, sort_members_perm.
Qed.

Lemma mem_bytes_In x l : mem_bytes x l = true <-> In x l.
Proof.
  induction l as [|y r IH]; cbn [mem_bytes In]; [split; [discriminate|tauto]|].
  rewrite orb_true_iff, IH, beq_eq. split; intros [H|H]; auto.
Qed.

Lemma nodup_bytes_NoDup l : nodup_bytes l = true -> NoDup l.
Proof.
  induction l as [|x r IH]; cbn [nodup_bytes]; intros H; [constructor|].
  apply andb_true_iff in H. destruct H as [Hx Hr]. constructor; [|now apply IH].
  intros Hin. apply mem_bytes_In in Hin. now rewrite Hin in Hx.
Qed.

Lemma distinct_keys_obj m :
  distinct_keys (JObj m) = true ->
  NoDup (map mkey m) /\ Forall (fun kv : bytes * jv => distinct_keys (snd kv) = true) m.
Proof.
  cbn [distinct_keys]. intros H. apply andb_true_iff in H. destruct H as [H1 H2]. split.
  - now apply nodup_bytes_NoDup.
  - rewrite forallb_forall in H2. apply Forall_forall. intros [k x] Hin.
    specialize (H2 _ Hin). exact H2.
Qed.

Lemma map_mkey_sort_child m : map mkey (map sort_child m) = map mkey m.
Proof.
  rewrite map_map. apply map_ext. intros [k x]. reflexivity.
Qed.

Lemma map_sort_v_Forall2 l1 l2 :
  Forall2 jperm l1 l2 ->
  Forall (fun v => forall v2, jperm v v2 -> distinct_keys v = true -> sort_v v = sort_v v2) l1 ->
  forallb distinct_keys l1 = true -> map sort_v l1 = map sort_v l2.
Proof.
  induction 1 as [|a b r1 r2 Hab Hr IHr]; intros HIH Hd; [reflexivity|].
  inversion HIH as [|? ? Ha Hra]; subst. cbn [forallb] in Hd.
  apply andb_true_iff in Hd. destruct Hd as [Hda Hdr].
  cbn [map]. f_equal; [now apply Ha|now apply IHr].
Qed.

Lemma map_sort_child_Forall2 m1 m1' :
  Forall2 (fun a b : bytes * jv => fst a = fst b /\ jperm (snd a) (snd b)) m1 m1' ->
  Forall (fun kv : bytes * jv => forall v2, jperm (snd kv) v2 ->
            distinct_keys (snd kv) = true -> sort_v (snd kv) = sort_v v2) m1 ->
  Forall (fun kv : bytes * jv => distinct_keys (snd kv) = true) m1 ->
  map sort_child m1 = map sort_child m1'.
Proof.
  induction 1 as [|[ka xa] [kb xb] r1 r2 [Hk Hx] Hr IHr]; intros HIH Hdc; [reflexivity|].
  cbn [fst snd] in *. subst kb. cbn [map sort_child].
  inversion HIH as [|? ? Ha Hra]; subst. inversion Hdc as [|? ? Hda Hdr]; subst.
  cbn [snd] in *. f_equal; [now rewrite (Ha xb Hx Hda)|]. now apply IHr.
Qed.

Theorem sort_v_jperm v1 : forall v2,
  jperm v1 v2 -> distinct_keys v1 = true -> sort_v v1 = sort_v v2.
Proof.
  induction v1 as [ | | |raw|raw|l1 IH|m1 IH] using jv_ind'; intros v2 Hp Hd;
    inversion Hp; subst; try reflexivity.
  - (* arrays *)
    cbn [sort_v]. f_equal. cbn [distinct_keys] in Hd.
    apply map_sort_v_Forall2; assumption.
  - (* objects *)
    rewrite !sort_v_obj. f_equal.
    destruct (distinct_keys_obj _ Hd) as [Hnd Hdc].
    match goal with H : Forall2 _ m1 ?m |- _ => rename H into HF; rename m into m1' end.
    assert (Hmap : map sort_child m1 = map sort_child m1')
      by (apply map_sort_child_Forall2; assumption).
    rewrite Hmap. apply sort_members_perm_eq.
    + now apply Permutation_map.
    + rewrite <- Hmap, map_mkey_sort_child. exact Hnd.
Qed.

(* member-order insensitivity: with SortKeys the snapshot does not depend on the order of
   object members (at any depth), provided keys are distinct *)
Theorem snapshot_perm_insensitive width indent v1 v2 l1 l2 :
  jperm v1 v2 -> distinct_keys v1 = true -> wf_json v1 -> wf_json v2 ->
  ws_layout l1 -> ws_layout l2 ->
  snapshot_json width indent true (render l1 v1) = snapshot_json width indent true (render l2 v2).
Proof.
  intros Hp Hd Hw1 Hw2 Hl1 Hl2.
  rewrite (snapshot_json_renders width indent true _ v1); auto using render_renders.
  rewrite (snapshot_json_renders width indent true _ v2); auto using render_renders.
  cbn [sort_if]. now rewrite (sort_v_jperm v1 v2 Hp Hd).
Qed.
(* ================================================================== *)
(* every rendering derivation is [render] at some layout                *)

Lemma agree_sub l1 l2 i : agree l1 l2 -> agree (sub l1 i) (sub l2 i).
Proof. intros H p. apply H. Qed.

Lemma agree_core_sub l1 l2 i : 2 <= i -> agree_core l1 l2 -> agree (sub l1 i) (sub l2 i).
Proof.
  intros Hi H p. apply H; intros [= E _]; lia.
Qed.

Lemma agree_agree_core l1 l2 : agree l1 l2 -> agree_core l1 l2.
Proof. intros H p _ _. apply H. Qed.

Lemma render_tail_ext (F G : layout -> jv -> bytes) r : forall l1 l2,
  Forall (fun y => forall l1 l2, agree l1 l2 -> F l1 y = G l2 y) r ->
  agree l1 l2 -> render_tail F l1 r = render_tail G l2 r.
Proof.
  induction r as [|y r IH]; intros l1 l2 Hall Ha; [reflexivity|].
  inversion Hall as [|? ? Hy Hr]; subst. cbn [render_tail].
  rewrite (Hy (sub l1 0) (sub l2 0)) by now apply agree_sub.
  now rewrite (IH (sub l1 1) (sub l2 1) Hr) by now apply agree_sub.
Qed.

Lemma render_mtail_ext (F G : layout -> jv -> bytes) r : forall l1 l2,
  Forall (fun kv : bytes * jv => forall l1 l2, agree l1 l2 -> F l1 (snd kv) = G l2 (snd kv)) r ->
  agree l1 l2 -> render_mtail F l1 r = render_mtail G l2 r.
Proof.
  induction r as [|[k y] r IH]; intros l1 l2 Hall Ha; [reflexivity|].
  inversion Hall as [|? ? Hy Hr]; subst. cbn [snd] in Hy. cbn [render_mtail]. unfold render_member.
  rewrite (Hy (sub l1 0) (sub l2 0)) by now apply agree_sub.
  rewrite (IH (sub l1 1) (sub l2 1) Hr) by now apply agree_sub.
  now rewrite !Ha.
Qed.

Theorem render_core_ext v : forall l1 l2, agree_core l1 l2 -> render_core l1 v = render_core l2 v.
Proof.
  induction v as [ | | |raw|raw|l IH|m IH] using jv_ind'; intros l1 l2 Ha; try reflexivity.
  - destruct l as [|x r]; cbn [render_core].
    + rewrite (Ha [2]) by discriminate. reflexivity.
    + inversion IH as [|? ? Hx Hr]; subst.
      assert (H3 : agree (sub l1 3) (sub l2 3)) by (apply agree_core_sub; [lia|assumption]).
      assert (H4 : agree (sub l1 4) (sub l2 4)) by (apply agree_core_sub; [lia|assumption]).
      unfold wrap at 1 3. rewrite !H3.
      rewrite (Hx (sub l1 3) (sub l2 3)) by now apply agree_agree_core.
      rewrite (render_tail_ext _ (fun l' y => wrap l' (render_core l' y)) r (sub l1 4) (sub l2 4));
        [reflexivity| |assumption].
      eapply Forall_impl; [|exact Hr]. intros y Hy a b Hab. unfold wrap.
      rewrite !Hab. now rewrite (Hy a b) by now apply agree_agree_core.
  - destruct m as [|[k x] r]; cbn [render_core].
    + rewrite (Ha [2]) by discriminate. reflexivity.
    + inversion IH as [|? ? Hx Hr]; subst. cbn [snd] in Hx.
      assert (H3 : agree (sub l1 3) (sub l2 3)) by (apply agree_core_sub; [lia|assumption]).
      assert (H4 : agree (sub l1 4) (sub l2 4)) by (apply agree_core_sub; [lia|assumption]).
      unfold render_member, wrap at 1 3. rewrite !H3.
      rewrite (Ha [5]), (Ha [6]) by discriminate.
      rewrite (Hx (sub l1 3) (sub l2 3)) by now apply agree_agree_core.
      rewrite (render_mtail_ext _ (fun l' y => wrap l' (render_core l' y)) r (sub l1 4) (sub l2 4));
        [reflexivity| |assumption].
      eapply Forall_impl; [|exact Hr]. intros [k' y] Hy a b Hab. cbn [snd] in *. unfold wrap.
      rewrite !Hab. now rewrite (Hy a b) by now apply agree_agree_core.
Qed.

Lemma lay_set01_core l a b : agree_core (lay_set01 l a b) l.
Proof.
  intros p H0 H1. unfold lay_set01.
  destruct p as [|[|[|n]] [|m t]]; try reflexivity; congruence.
Qed.

Lemma render_core_set01 l a b v : render_core (lay_set01 l a b) v = render_core l v.
Proof. apply render_core_ext, lay_set01_core. Qed.

Ltac ws_lay_tac :=
  repeat match goal with
         | |- ws_bytes (match ?x with _ => _ end) => destruct x
         end; auto; try reflexivity.

Lemma ws_lay_set01 l a b : ws_layout l -> ws_bytes a -> ws_bytes b -> ws_layout (lay_set01 l a b).
Proof. intros Hl Ha Hb p. unfold lay_set01. ws_lay_tac. Qed.
Lemma ws_lay_empty w : ws_bytes w -> ws_layout (lay_empty w).
Proof. intros Hw p. unfold lay_empty. ws_lay_tac. Qed.
Lemma ws_lay_arr lx lt : ws_layout lx -> ws_layout lt -> ws_layout (lay_arr lx lt).
Proof. intros Hx Ht p. unfold lay_arr. ws_lay_tac. Qed.
Lemma ws_lay_tail ly lt : ws_layout ly -> ws_layout lt -> ws_layout (lay_tail ly lt).
Proof. intros Hy Ht p. unfold lay_tail. ws_lay_tac. Qed.
Lemma ws_lay_obj w1 w2 lx lt :
  ws_bytes w1 -> ws_bytes w2 -> ws_layout lx -> ws_layout lt -> ws_layout (lay_obj w1 w2 lx lt).
Proof. intros H1 H2 Hx Ht p. unfold lay_obj. ws_lay_tac. Qed.
Lemma ws_lay_mtail w1 w2 ly lt :
  ws_bytes w1 -> ws_bytes w2 -> ws_layout ly -> ws_layout lt -> ws_layout (lay_mtail w1 w2 ly lt).
Proof. intros H1 H2 Hy Ht p. unfold lay_mtail. ws_lay_tac. Qed.

Lemma wrap_set01 l a b c : wrap (lay_set01 l a b) c = a ++ c ++ b.
Proof. reflexivity. Qed.

Local Notation RW := (fun l' y => wrap l' (render_core l' y)).

Theorem rcore_layout_all :
  (forall v s, rcore v s -> exists l, ws_layout l /\ s = render_core l v) /\
  (forall r s, rtail r s ->
     exists w lt, ws_bytes w /\ ws_layout lt /\ s = w ++ render_tail RW lt r ++ [c_rbrack]) /\
  (forall r s, rmtail r s ->
     exists w lt, ws_bytes w /\ ws_layout lt /\ s = w ++ render_mtail RW lt r ++ [c_rbrace]).
Proof.
  apply rcore_rtail_rmtail_ind.
  - exists compact. split; [apply ws_layout_compact|reflexivity].
  - exists compact. split; [apply ws_layout_compact|reflexivity].
  - exists compact. split; [apply ws_layout_compact|reflexivity].
  - intros raw. exists compact. split; [apply ws_layout_compact|reflexivity].
  - intros raw. exists compact. split; [apply ws_layout_compact|reflexivity].
  - intros w Hw. exists (lay_empty w). split; [now apply ws_lay_empty|reflexivity].
  - intros x r pre sx st Hpre _ (lx & Hlx & ->) _ (w & lt & Hw & Hlt & ->).
    exists (lay_arr (lay_set01 lx pre w) lt). split.
    + apply ws_lay_arr; [now apply ws_lay_set01|assumption].
    + cbn [render_core].
      change (sub (lay_arr (lay_set01 lx pre w) lt) 3) with (lay_set01 lx pre w).
      change (sub (lay_arr (lay_set01 lx pre w) lt) 4) with lt.
      rewrite wrap_set01, render_core_set01. norm_app. reflexivity.
  - intros w Hw. exists (lay_empty w). split; [now apply ws_lay_empty|reflexivity].
  - intros k x r w1 w2 w3 sx st H1 H2 H3 _ (lx & Hlx & ->) _ (w & lt & Hw & Hlt & ->).
    exists (lay_obj w1 w2 (lay_set01 lx w3 w) lt). split.
    + apply ws_lay_obj; auto. now apply ws_lay_set01.
    + cbn [render_core]. unfold render_member.
      change (sub (lay_obj w1 w2 (lay_set01 lx w3 w) lt) 3) with (lay_set01 lx w3 w).
      change (sub (lay_obj w1 w2 (lay_set01 lx w3 w) lt) 4) with lt.
      rewrite wrap_set01, render_core_set01. cbn [lay_obj]. norm_app. reflexivity.
  - intros w Hw. exists w, compact. split; [assumption|]. split; [apply ws_layout_compact|reflexivity].
  - intros w pre y r sy st Hw Hpre _ (ly & Hly & ->) _ (w' & lt & Hw' & Hlt & ->).
    exists w, (lay_tail (lay_set01 ly pre w') lt). split; [assumption|]. split.
    + apply ws_lay_tail; [now apply ws_lay_set01|assumption].
    + cbn [render_tail].
      change (sub (lay_tail (lay_set01 ly pre w') lt) 0) with (lay_set01 ly pre w').
      change (sub (lay_tail (lay_set01 ly pre w') lt) 1) with lt.
      rewrite wrap_set01, render_core_set01. norm_app. reflexivity.
  - intros w Hw. exists w, compact. split; [assumption|]. split; [apply ws_layout_compact|reflexivity].
  - intros w w1 w2 w3 k y r sy st Hw H1 H2 H3 _ (ly & Hly & ->) _ (w' & lt & Hw' & Hlt & ->).
    exists w, (lay_mtail w1 w2 (lay_set01 ly w3 w') lt). split; [assumption|]. split.
    + apply ws_lay_mtail; auto. now apply ws_lay_set01.
    + cbn [render_mtail]. unfold render_member.
      change (sub (lay_mtail w1 w2 (lay_set01 ly w3 w') lt) 0) with (lay_set01 ly w3 w').
      change (sub (lay_mtail w1 w2 (lay_set01 ly w3 w') lt) 1) with lt.
      rewrite wrap_set01, render_core_set01. cbn [lay_mtail]. norm_app. reflexivity.
Qed.

(* the relation and the layout function describe the same set of documents *)
Theorem renders_iff_render v s : renders v s <-> exists l, ws_layout l /\ s = render l v.
Proof.
  split.
  - intros (pre & sc & post & Hpre & Hpost & Hc & ->).
    destruct (proj1 rcore_layout_all v sc Hc) as (l & Hl & ->).
    exists (lay_set01 l pre post). split; [now apply ws_lay_set01|].
    unfold render, wrap. now rewrite render_core_set01.
  - intros (l & Hl & ->). now apply render_renders.
Qed.

(* canon: the pretty printer output IS [render] at one particular layout *)
Corollary pretty_is_render width indent depth col v :
  ws_bytes indent -> exists l, ws_layout l /\ pretty_v width indent depth col v = render l v.
Proof.
  intros Hi. apply renders_iff_render. now apply pretty_renders.
Qed.

(* every valid document is [render] of its AST at some layout *)
Corollary valid_is_render s :
  valid s = true -> exists v l, wf_json v /\ ws_layout l /\ s = render l v.
Proof.
  intros Hv. destruct (valid_parse s Hv) as [v Hp].
  apply parse_sound in Hp. destruct Hp as [Hr Hwf].
  apply renders_iff_render in Hr. destruct Hr as (l & Hl & ->). now exists v, l.
Qed.
