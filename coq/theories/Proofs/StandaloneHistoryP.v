(* Histories of STANDALONE snapshot calls (MatchStandaloneSnapshot / MatchStandaloneJSON):
   recording run, replay run, update runs, the ordinal registry over interleaved tests, and the
   union with the multi-entry APIs (C19 / C01 over histories). *)
From Coq Require Import String.
From Coq Require Import List NArith Arith Bool Lia.
Import ListNotations.
From Snaps Require Import Base.Bytes Base.Lines Base.Dec Base.Assoc.
From Snaps Require Import Model.Frame Model.PathModel Model.Mode Model.Api.
From Snaps Require Import Proofs.BytesP Proofs.LinesP Proofs.DecP Proofs.FrameP Proofs.DiffDecisionP
  Proofs.ApiP Proofs.StandaloneP Proofs.StepP Proofs.HistoryP Proofs.UpdateHistoryP.

(* ====================================================================================== *)
(* 1. Operations of a standalone history                                                   *)
(* ====================================================================================== *)

(* standalone Match* calls with ANY payload and ANY bytes as value (no restriction on the test
   name or on the text: the file is the value), ends of test executions, Config creation *)
Definition stand_op_ok (o : op) : Prop :=
  match o with
  | OMatch a _ _ _ => is_standalone a = true
  | OEndTest _ => True
  | ONewConfig _ _ _ _ => True
  | _ => False
  end.

(* histories mixing all five APIs *)
Definition mixed_op_ok (o : op) : Prop := hist_op_ok o \/ stand_op_ok o.

(* the Config a standalone call really uses (MatchStandaloneJSON defaults the extension) *)
Definition eff_cfg (a : api) (c : config) : config :=
  match a with AStandJson => json_ext c | _ => c end.

Lemma step_match_stand s a h test p c :
  is_standalone a = true -> nth_error (s_cfgs s) h = Some c ->
  step s (OMatch a h test p) = stand_call s a (eff_cfg a c) test p.
Proof. intros Hst Hc. cbn [step]. rewrite Hc, Hst. reflexivity. Qed.

(* ---------- recorded facts: (file, bytes) "this file holds exactly these bytes" ---------- *)

Definition sfact := (bytes * bytes)%type.

Definition sfact_of (s : state) (o : op) : list sfact :=
  match o with
  | OMatch a h test (POk text) =>
      if is_standalone a then
        match nth_error (s_cfgs s) h with
        | Some c => [(stand_path s (eff_cfg a c) test, text)]
        | None => []
        end
      else []
  | _ => []
  end.

Fixpoint sfacts (s : state) (h : list op) : list sfact :=
  match h with
  | [] => []
  | o :: r => sfact_of s o ++ sfacts (fst (step s o)) r
  end.

Definition sholds (fs : list (bytes * bytes)) (f : sfact) : Prop :=
  alookup (fst f) fs = Some (snd f).

(* multi-entry facts of a mixed history (HistoryP.fact_of does not look at the API) *)
Definition mfact_of (s : state) (o : op) : list fact :=
  match o with
  | OMatch a _ _ _ => if is_standalone a then [] else fact_of s o
  | _ => []
  end.

Fixpoint mfacts (s : state) (h : list op) : list fact :=
  match h with
  | [] => []
  | o :: r => mfact_of s o ++ mfacts (fst (step s o)) r
  end.

Definition fpath (f : fact) : bytes := fst (fst (fst f)).

(* ====================================================================================== *)
(* 2. One standalone call                                                                  *)
(* ====================================================================================== *)

Lemma stand_call_view s a c test p :
  reg_view (fst (stand_call s a c test p)) =
  reg_view (fst (reg_stand s (stand_generic s c test) test)).
Proof.
  unfold stand_call, stand_generic, finish, reg_stand, reg_view.
  destruct p; cbn; try reflexivity;
    repeat match goal with
           | |- context [match ?x with _ => _ end] => destruct x eqn:?
           end; reflexivity.
Qed.

Lemma reg_stand_view s t g test :
  reg_view s = reg_view t ->
  reg_view (fst (reg_stand s g test)) = reg_view (fst (reg_stand t g test)).
Proof.
  unfold reg_view, reg_stand. cbn. intros [= H1 H2 H3 H4 H5]. now rewrite H1, H2, H3, H4, H5.
Qed.

Lemma view_spaths s t c test :
  reg_view s = reg_view t ->
  stand_generic s c test = stand_generic t c test /\ stand_path s c test = stand_path t c test.
Proof.
  unfold reg_view, stand_path, stand_generic. intros [= H1 H2 H3 H4 H5]. now rewrite H1, H3.
Qed.

Lemma stand_call_caller s a c test p : s_caller (fst (stand_call s a c test p)) = s_caller s.
Proof.
  pose proof (stand_call_view s a c test p) as H. unfold reg_view in H.
  injection H as H _ _ _ _. exact H.
Qed.

Lemma stand_call_fs_bad s a c test p :
  (forall t, p <> POk t) -> s_fs (fst (stand_call s a c test p)) = s_fs s.
Proof.
  intros Hp. destruct p as [| | |text]; try reflexivity. exfalso. now apply (Hp text).
Qed.

Lemma stand_call_bad s a c test p :
  (forall t, p <> POk t) -> ~ rec_ok_upd (snd (stand_call s a c test p)).
Proof.
  intros Hp. unfold stand_call, rec_ok_upd, finish, reg_stand.
  destruct p; try (exfalso; eapply Hp; reflexivity); cbn; intuition discriminate.
Qed.

Lemma rec_ok_upd_of_rec o : rec_ok o -> rec_ok_upd o.
Proof. unfold rec_ok, rec_ok_upd. intuition. Qed.

(* a recording call (passed / added / updated): either the file already held exactly the value and
   nothing changed, or the file is now (created or replaced wholesale) exactly the value *)
Lemma stand_upd_step s a c test p :
  rec_ok_upd (snd (stand_call s a c test p)) ->
  exists text, p = POk text /\
    ((alookup (stand_path s c test) (s_fs s) = Some text /\
      s_fs (fst (stand_call s a c test p)) = s_fs s) \/
     (s_fs (fst (stand_call s a c test p)) = aset (stand_path s c test) text (s_fs s) /\
      (o_outcome (snd (stand_call s a c test p)) = Added ->
       alookup (stand_path s c test) (s_fs s) = None))).
Proof.
  intros Hrec.
  destruct p as [| | |text];
    try (exfalso; eapply (stand_call_bad s a c test); [|exact Hrec]; intros t; discriminate).
  exists text. split; [reflexivity|].
  destruct (stand_call_spec s a c test text) as [s' [o [E [_ [_ [_ [_ [_ [Hm _]]]]]]]]].
  rewrite E in *. cbn [fst snd] in *.
  destruct (alookup (stand_path s c test) (s_fs s)) as [prev|] eqn:El.
  - destruct (diff_empty prev text) eqn:Ed.
    + left. apply diff_empty_true_eq in Ed. subst prev. destruct Hm as [_ [_ Hfs]]. auto.
    + destruct (should_update _ _).
      * right. destruct Hm as [Ho [_ Hfs]]. split; [assumption|]. intros Ha. congruence.
      * exfalso. destruct Hm as [Ho _]. unfold rec_ok_upd in Hrec. rewrite Ho in Hrec.
        intuition discriminate.
  - destruct (should_create _ _).
    + right. destruct Hm as [_ [_ Hfs]]. auto.
    + exfalso. destruct Hm as [Ho _]. unfold rec_ok_upd in Hrec. rewrite Ho in Hrec.
      intuition discriminate.
Qed.

(* without rewrites: the file either held the value or did not exist and was created *)
Lemma stand_rec_step s a c test p :
  rec_ok (snd (stand_call s a c test p)) ->
  exists text, p = POk text /\
    ((alookup (stand_path s c test) (s_fs s) = Some text /\
      s_fs (fst (stand_call s a c test p)) = s_fs s) \/
     (alookup (stand_path s c test) (s_fs s) = None /\
      s_fs (fst (stand_call s a c test p)) = aset (stand_path s c test) text (s_fs s))).
Proof.
  intros Hrec.
  destruct p as [| | |text];
    try (exfalso; eapply (stand_call_bad s a c test);
         [|apply rec_ok_upd_of_rec; exact Hrec]; intros t; discriminate).
  exists text. split; [reflexivity|].
  destruct (stand_call_spec s a c test text) as [s' [o [E [_ [_ [_ [_ [_ [Hm _]]]]]]]]].
  rewrite E in *. cbn [fst snd] in *.
  destruct (alookup (stand_path s c test) (s_fs s)) as [prev|] eqn:El.
  - destruct (diff_empty prev text) eqn:Ed.
    + left. apply diff_empty_true_eq in Ed. subst prev. destruct Hm as [_ [_ Hfs]]. auto.
    + exfalso. unfold rec_ok in Hrec.
      destruct (should_update _ _); destruct Hm as [Ho _]; rewrite Ho in Hrec;
        intuition discriminate.
  - destruct (should_create _ _).
    + right. destruct Hm as [_ [_ Hfs]]. auto.
    + exfalso. destruct Hm as [Ho _]. unfold rec_ok in Hrec. rewrite Ho in Hrec.
      intuition discriminate.
Qed.

(* a call whose file holds its value passes silently in every mode *)
Lemma stand_replay_step s a c test text :
  alookup (stand_path s c test) (s_fs s) = Some text ->
  silent_pass (snd (stand_call s a c test (POk text))) /\
  s_fs (fst (stand_call s a c test (POk text))) = s_fs s.
Proof.
  intros H. destruct (stand_replay s a c test text H) as [s' [o [E [H1 [H2 [H3 [H4 H5]]]]]]].
  rewrite E. cbn [fst snd]. unfold silent_pass. auto.
Qed.

(* ====================================================================================== *)
(* 3. Simulation: the registry/config part of the state evolves identically                *)
(* ====================================================================================== *)

Lemma mixed_step_view s t o :
  mixed_op_ok o -> reg_view s = reg_view t ->
  reg_view (fst (step s o)) = reg_view (fst (step t o)) /\
  mfact_of s o = mfact_of t o /\ sfact_of s o = sfact_of t o.
Proof.
  intros Ho Hv.
  assert (Hcf : s_cfgs s = s_cfgs t) by (unfold reg_view in Hv; congruence).
  assert (Hh : (exists a hd test p, o = OMatch a hd test p /\ is_standalone a = true) \/ hist_op_ok o).
  { destruct Ho as [Ho|Ho]; [now right|].
    destruct o as [a hd test p|test|test|fn d ex u|e|pa co|pa|]; cbn [stand_op_ok] in Ho;
      try contradiction; [left; eauto 6|right; exact I|right; exact I]. }
  destruct Hh as [[a [hd [test [p [-> Hst]]]]]|Hh].
  - cbn [mfact_of sfact_of]. rewrite Hst, <- Hcf.
    destruct (nth_error (s_cfgs s) hd) as [c|] eqn:Ec.
    + assert (Ec' : nth_error (s_cfgs t) hd = Some c) by now rewrite <- Hcf.
      rewrite (step_match_stand _ _ _ _ _ _ Hst Ec), (step_match_stand _ _ _ _ _ _ Hst Ec').
      destruct (view_spaths s t (eff_cfg a c) test Hv) as [Hg Hp].
      split; [|split; [reflexivity|]].
      * rewrite !stand_call_view, <- Hg. now apply reg_stand_view.
      * destruct p; try reflexivity. now rewrite Hp.
    + assert (Ec' : nth_error (s_cfgs t) hd = None) by now rewrite <- Hcf.
      rewrite !step_match_nocfg by assumption. cbn [fst].
      split; [assumption|split; [reflexivity|]]. destruct p; reflexivity.
  - destruct (step_view s t o Hh Hv) as [H1 H2]. split; [assumption|].
    destruct o as [a hd test p|test|test|fn d ex u|e|pa co|pa|]; cbn [hist_op_ok] in Hh;
      try contradiction; cbn [mfact_of sfact_of]; [|split; reflexivity|split; reflexivity].
    destruct Hh as [Hst _]. rewrite Hst. split; [assumption|]. destruct p; reflexivity.
Qed.

Lemma mixed_facts_view h : forall s t,
  Forall mixed_op_ok h -> reg_view s = reg_view t ->
  mfacts s h = mfacts t h /\ sfacts s h = sfacts t h.
Proof.
  induction h as [|o r IH]; intros s t Hok Hv; [split; reflexivity|].
  inversion Hok as [|? ? Ho Hr]; subst. cbn [mfacts sfacts].
  destruct (mixed_step_view s t o Ho Hv) as [Hv' [Hm Hs]]. rewrite Hm, Hs.
  destruct (IH _ _ Hr Hv') as [H1 H2]. now rewrite H1, H2.
Qed.

Lemma mixed_step_caller_cfgs s o :
  mixed_op_ok o ->
  s_caller (fst (step s o)) = s_caller s /\ exists extra, s_cfgs (fst (step s o)) = (s_cfgs s ++ extra)%list.
Proof.
  intros [Ho|Ho]; [now apply step_caller_cfgs|].
  destruct o as [a hd test p|test|test|fn d ex u|e|pa co|pa|]; cbn [stand_op_ok] in Ho;
    try contradiction; try (apply step_caller_cfgs; exact I).
  destruct (nth_error (s_cfgs s) hd) as [c|] eqn:Ec.
  - rewrite (step_match_stand _ _ _ _ _ _ Ho Ec). rewrite stand_call_caller, stand_call_cfgs.
    split; [reflexivity|exists []; now rewrite app_nil_r].
  - rewrite (step_match_nocfg _ _ _ _ _ Ec). cbn [fst].
    split; [reflexivity|exists []; now rewrite app_nil_r].
Qed.

Lemma mixed_run_caller_cfgs h : forall s,
  Forall mixed_op_ok h ->
  s_caller (fst (run s h)) = s_caller s /\ exists extra, s_cfgs (fst (run s h)) = (s_cfgs s ++ extra)%list.
Proof.
  induction h as [|o r IH]; intros s Hok.
  - cbn. split; [reflexivity|exists []; now rewrite app_nil_r].
  - rewrite run_cons. cbn [fst]. inversion Hok as [|? ? Ho Hr]; subst.
    destruct (mixed_step_caller_cfgs s o Ho) as [H1 [x1 H2]].
    destruct (IH (fst (step s o)) Hr) as [H3 [x2 H4]].
    rewrite H3, H1, H4, H2. split; [reflexivity|]. exists (x1 ++ x2)%list. now rewrite app_assoc.
Qed.

(* the replay process starts from the registry view of the recording process *)
Lemma replay_view s0 h e2 :
  fresh s0 -> Forall mixed_op_ok h ->
  reg_view s0 = reg_view (replay_start (fst (run s0 h)) e2).
Proof.
  intros [Hf1 [Hf2 [Hf3 Hf4]]] Hok.
  destruct (mixed_run_caller_cfgs h s0 Hok) as [Hcal [extra Hcf]].
  unfold reg_view, replay_start. cbn. rewrite Hf1, Hf2, Hf3, Hcal, Hcf.
  destruct (s_cfgs s0) as [|c0 [|c1 l]]; try discriminate Hf4. reflexivity.
Qed.

Lemma stand_is_mixed h : Forall stand_op_ok h -> Forall mixed_op_ok h.
Proof. intros H. eapply Forall_impl; [|exact H]. intros o Ho. now right. Qed.

Lemma hist_is_mixed h : Forall hist_op_ok h -> Forall mixed_op_ok h.
Proof. intros H. eapply Forall_impl; [|exact H]. intros o Ho. now left. Qed.

(* ====================================================================================== *)
(* 4. Standalone histories: recording run without rewrites, replay run                     *)
(* ====================================================================================== *)

Lemma sholds_aset_other fs q v f : fst f <> q -> sholds fs f -> sholds (aset q v fs) f.
Proof. unfold sholds. intros Hne H. now rewrite alookup_aset_other. Qed.

(* no hypothesis on the file system: every recorded (file, bytes) fact holds at the end, and no
   file that existed is ever changed *)
Lemma record_run_stand h : forall s,
  Forall stand_op_ok h -> Forall rec_ok (snd (run s h)) ->
  let s1 := fst (run s h) in
  Forall (sholds (s_fs s1)) (sfacts s h) /\
  (forall q v, alookup q (s_fs s) = Some v -> alookup q (s_fs s1) = Some v).
Proof.
  induction h as [|o r IH]; intros s Hok Hrec; cbn zeta.
  - cbn. split; [constructor|auto].
  - rewrite run_cons in *. cbn [fst snd] in *.
    inversion Hok as [|? ? Ho Hr]; subst. inversion Hrec as [|? ? Ho1 Hr1]; subst.
    assert (Hstep : Forall (sholds (s_fs (fst (step s o)))) (sfact_of s o) /\
                    (forall q v, alookup q (s_fs s) = Some v ->
                                 alookup q (s_fs (fst (step s o))) = Some v)).
    { destruct o as [a hd test p|test|test|fn d ex u|e|pa co|pa|]; cbn [stand_op_ok] in Ho;
        try contradiction.
      - cbn [sfact_of]. rewrite Ho.
        destruct (nth_error (s_cfgs s) hd) as [c|] eqn:Ec.
        + rewrite (step_match_stand _ _ _ _ _ _ Ho Ec) in *.
          destruct (stand_rec_step s a (eff_cfg a c) test p Ho1) as [text [-> [[Hl Hfs]|[Hl Hfs]]]];
            rewrite Hfs.
          * split; [|auto]. constructor; [exact Hl|constructor].
          * split.
            -- constructor; [|constructor]. unfold sholds. cbn [fst snd]. apply alookup_aset_same.
            -- intros q v Hq. rewrite alookup_aset_other; [assumption|]. intros ->. congruence.
        + rewrite (step_match_nocfg _ _ _ _ _ Ec). cbn [fst].
          split; [|auto]. destruct p; constructor.
      - cbn [step fst sfact_of]. rewrite end_test_fs. split; [constructor|auto].
      - cbn [step fst sfact_of s_fs]. split; [constructor|auto]. }
    destruct Hstep as [Hf1 Hp1].
    destruct (IH (fst (step s o)) Hr Hr1) as [Hf2 Hp2].
    split; [|auto].
    cbn [sfacts]. apply Forall_app. split; [|assumption].
    eapply Forall_impl; [|exact Hf1]. intros [q v]. unfold sholds. cbn [fst snd]. apply Hp2.
Qed.

Lemma replay_run_stand h : forall t,
  Forall stand_op_ok h -> Forall (sholds (s_fs t)) (sfacts t h) -> Forall has_value h ->
  Forall silent_pass (snd (run t h)) /\ s_fs (fst (run t h)) = s_fs t.
Proof.
  induction h as [|o r IH]; intros t Hok Hf Hp.
  - cbn. split; [constructor|reflexivity].
  - rewrite run_cons. cbn [fst snd].
    inversion Hok as [|? ? Ho Hr]; subst. inversion Hp as [|? ? Hv Hvr]; subst.
    cbn [sfacts] in Hf. apply Forall_app in Hf as [Hf1 Hf2].
    assert (Hstep : silent_pass (snd (step t o)) /\ s_fs (fst (step t o)) = s_fs t).
    { destruct o as [a hd test p|test|test|fn d ex u|e|pa co|pa|]; cbn [stand_op_ok] in Ho;
        try contradiction.
      - destruct Hv as [text ->].
        destruct (nth_error (s_cfgs t) hd) as [c|] eqn:Ec.
        + rewrite (step_match_stand _ _ _ _ _ _ Ho Ec).
          cbn [sfact_of] in Hf1. rewrite Ho, Ec in Hf1. inversion Hf1 as [|? ? Hh _]; subst.
          now apply stand_replay_step.
        + rewrite (step_match_nocfg _ _ _ _ _ Ec). cbn. unfold silent_pass. cbn. repeat split; auto.
      - cbn [step fst snd]. rewrite end_test_fs. unfold silent_pass. cbn. repeat split; auto.
      - cbn [step fst snd s_fs]. unfold silent_pass. cbn. repeat split; auto. }
    destruct Hstep as [Hs1 Hfs1].
    destruct (IH (fst (step t o)) Hr) as [Hs2 Hfs2].
    + now rewrite Hfs1.
    + assumption.
    + split; [constructor; assumption|]. now rewrite Hfs2.
Qed.

(* Two processes. The first runs a history of standalone calls (any interleaving of tests, shared
   generic paths included, ANY bytes as values, ANY initial file system) and only records.
   A fresh process in ANY mode makes the same calls: all pass silently, nothing is written. *)
Theorem standalone_replay_after_create s0 h e2 :
  fresh s0 -> Forall stand_op_ok h -> Forall has_value h ->
  Forall rec_ok (snd (run s0 h)) ->
  let s1 := fst (run s0 h) in
  let t0 := replay_start s1 e2 in
  Forall silent_pass (snd (run t0 h)) /\ s_fs (fst (run t0 h)) = s_fs s1.
Proof.
  intros Hfr Hok Hval Hrec s1 t0.
  destruct (record_run_stand h s0 Hok Hrec) as [Hfacts _]. fold s1 in Hfacts.
  pose proof (replay_view s0 h e2 Hfr (stand_is_mixed h Hok)) as Hview. fold s1 t0 in Hview.
  assert (Hfs : s_fs t0 = s_fs s1) by reflexivity.
  destruct (replay_run_stand h t0 Hok) as [H1 H2].
  - destruct (mixed_facts_view h s0 t0 (stand_is_mixed h Hok) Hview) as [_ Hsf].
    rewrite <- Hsf, Hfs. exact Hfacts.
  - assumption.
  - split; [assumption|]. now rewrite H2.
Qed.

(* ====================================================================================== *)
(* 5. Standalone histories whose recording run also rewrites files (update mode)           *)
(* ====================================================================================== *)

(* the history never writes two different values to one file *)
Definition sconsistent (l : list sfact) : Prop :=
  forall p v v', In (p, v) l -> In (p, v') l -> v = v'.

Lemma record_run_stand_upd h : forall s old,
  Forall stand_op_ok h -> Forall rec_ok_upd (snd (run s h)) ->
  sconsistent (old ++ sfacts s h) -> Forall (sholds (s_fs s)) old ->
  Forall (sholds (s_fs (fst (run s h)))) (old ++ sfacts s h).
Proof.
  induction h as [|o r IH]; intros s old Hok Hrec Hcons Hold.
  - cbn. now rewrite app_nil_r.
  - rewrite run_cons in *. cbn [fst snd] in *.
    inversion Hok as [|? ? Ho Hr]; subst. inversion Hrec as [|? ? Ho1 Hr1]; subst.
    cbn [sfacts] in *.
    assert (Hstep : Forall (sholds (s_fs (fst (step s o)))) (old ++ sfact_of s o)).
    { destruct o as [a hd test p|test|test|fn d ex u|e|pa co|pa|]; cbn [stand_op_ok] in Ho;
        try contradiction.
      - cbn [sfact_of] in *. rewrite Ho in *.
        destruct (nth_error (s_cfgs s) hd) as [c|] eqn:Ec.
        + rewrite (step_match_stand _ _ _ _ _ _ Ho Ec) in *.
          destruct (stand_upd_step s a (eff_cfg a c) test p Ho1) as [text [-> [[Hl Hfs]|[Hfs _]]]];
            rewrite Hfs.
          * apply Forall_app. split; [assumption|]. constructor; [exact Hl|constructor].
          * apply Forall_app. split.
            -- rewrite Forall_forall in *. intros [q v] Hin. unfold sholds. cbn [fst snd].
               destruct (beq_spec q (stand_path s (eff_cfg a c) test)) as [->|Hne].
               ++ rewrite alookup_aset_same. f_equal.
                  apply (Hcons (stand_path s (eff_cfg a c) test)).
                  ** apply in_or_app. right. apply in_or_app. left. now left.
                  ** apply in_or_app. now left.
               ++ rewrite alookup_aset_other by assumption. apply (Hold _ Hin).
            -- constructor; [|constructor]. unfold sholds. cbn [fst snd]. apply alookup_aset_same.
        + rewrite (step_match_nocfg _ _ _ _ _ Ec). cbn [fst].
          destruct p; now rewrite app_nil_r.
      - cbn [step fst sfact_of]. rewrite end_test_fs. now rewrite app_nil_r.
      - cbn [step fst sfact_of s_fs]. now rewrite app_nil_r. }
    rewrite app_assoc. apply IH; auto. now rewrite <- app_assoc.
Qed.

Theorem standalone_replay_after_update s0 h e2 :
  fresh s0 -> Forall stand_op_ok h -> Forall has_value h ->
  Forall rec_ok_upd (snd (run s0 h)) ->
  sconsistent (sfacts s0 h) ->
  let s1 := fst (run s0 h) in
  let t0 := replay_start s1 e2 in
  Forall silent_pass (snd (run t0 h)) /\ s_fs (fst (run t0 h)) = s_fs s1.
Proof.
  intros Hfr Hok Hval Hrec Hcons s1 t0.
  pose proof (record_run_stand_upd h s0 [] Hok Hrec Hcons (Forall_nil _)) as Hfacts.
  cbn [app] in Hfacts. fold s1 in Hfacts.
  pose proof (replay_view s0 h e2 Hfr (stand_is_mixed h Hok)) as Hview. fold s1 t0 in Hview.
  assert (Hfs : s_fs t0 = s_fs s1) by reflexivity.
  destruct (replay_run_stand h t0 Hok) as [H1 H2].
  - destruct (mixed_facts_view h s0 t0 (stand_is_mixed h Hok) Hview) as [_ Hsf].
    rewrite <- Hsf, Hfs. exact Hfacts.
  - assumption.
  - split; [assumption|]. now rewrite H2.
Qed.

(* ====================================================================================== *)
(* 6. The k-th standalone call of a test maps to file k, over histories                    *)
(* ====================================================================================== *)

(* any operation except the start of a new process (which forgets the registries) *)
Definition kth_op_ok (o : op) : Prop := o <> ONewProcess.

(* (generic path, test) of a standalone call *)
Definition stand_target (s : state) (o : op) : option (bytes * bytes) :=
  match o with
  | OMatch a hd test _ =>
      if is_standalone a then
        match nth_error (s_cfgs s) hd with
        | Some c => Some (stand_generic s (eff_cfg a c) test, test)
        | None => None
        end
      else None
  | _ => None
  end.

(* test t is the only user of generic path g: every standalone call of the history whose generic
   path is g is made by t (other tests may do anything else, t may also use other paths) *)
Fixpoint only_user (g t : bytes) (s : state) (h : list op) : Prop :=
  match h with
  | [] => True
  | o :: r =>
      match stand_target s o with Some (g', t') => g' = g -> t' = t | None => True end /\
      only_user g t (fst (step s o)) r
  end.

(* the files addressed, in order, by the standalone calls of the history whose generic path is g *)
Fixpoint stand_paths (g : bytes) (s : state) (h : list op) : list bytes :=
  match h with
  | [] => []
  | o :: r =>
      (match stand_target s o with
       | Some (g', _) => if beq g' g then [o_path (snd (step s o))] else []
       | None => []
       end ++ stand_paths g (fst (step s o)) r)%list
  end.

Definition kinv (g t : bytes) (n : nat) (s : state) : Prop :=
  get1 (s_srunning s) g = n /\
  (forall t', In (t', RStand g) (s_pending s) -> t' = t) /\
  (0 < n -> In (t, RStand g) (s_pending s)).

(* number of calls to g since the last end of t, after one more operation *)
Definition kcount (g t : bytes) (n : nat) (s : state) (o : op) : nat :=
  match o with
  | OEndTest t' => if beq t' t then 0 else n
  | _ => match stand_target s o with
         | Some (g', _) => if beq g' g then S n else n
         | None => n
         end
  end.

Lemma get1_aset_same m k v : get1 (aset k v m) k = v.
Proof. unfold get1. now rewrite alookup_aset_same. Qed.

Lemma get1_aset_other m k k' v : k' <> k -> get1 (aset k v m) k' = get1 m k'.
Proof. intros H. unfold get1. now rewrite alookup_aset_other. Qed.

Lemma stand_call_regs s a c test p :
  s_srunning (fst (stand_call s a c test p)) =
    aset (stand_generic s c test) (S (get1 (s_srunning s) (stand_generic s c test))) (s_srunning s) /\
  s_pending (fst (stand_call s a c test p)) =
    (s_pending s ++ [(test, RStand (stand_generic s c test))])%list.
Proof.
  pose proof (stand_call_view s a c test p) as H. unfold reg_view in H.
  injection H as _ _ H3 _ H5. split; [exact H3|exact H5].
Qed.

Lemma multi_call_regs s a c test p :
  s_srunning (fst (multi_call s a c test p)) = s_srunning s /\
  exists extra, s_pending (fst (multi_call s a c test p)) = (s_pending s ++ extra)%list /\
                forall e, In e extra -> exists pa, e = (test, RMulti pa test).
Proof.
  pose proof (multi_call_view s a c test p) as H. unfold reg_view in H.
  assert (Hm : forall path,
            s_srunning (fst (reg_multi s path test)) = s_srunning s /\
            s_pending (fst (reg_multi s path test)) = (s_pending s ++ [(test, RMulti path test)])%list)
    by (intros; split; reflexivity).
  assert (H3 := f_equal (fun v => snd (fst (fst v))) H).
  assert (H5 := f_equal (fun v => snd v) H). cbv beta in H3, H5. clear H.
  destruct a, p; cbn [fst snd] in H3, H5; rewrite H3, H5;
    first [ split; [reflexivity|]; exists []; split; [now rewrite app_nil_r|intros e []]
          | destruct (Hm (multi_path s c test)) as [Hm1 Hm2]; rewrite Hm1, Hm2;
            split; [reflexivity|]; eexists; split; [reflexivity|];
            intros e [<-|[]]; eexists; reflexivity ].
Qed.

Lemma fold_reset_pending' (l : list (bytes * creset)) : forall st,
  s_pending (fold_left (fun st p => apply_reset st (snd p)) l st) = s_pending st.
Proof.
  induction l as [|[t r] l IH]; intros st; cbn [fold_left]; [reflexivity|].
  rewrite IH. destruct r; reflexivity.
Qed.

Lemma fold_reset_srunning (l : list (bytes * creset)) : forall st g,
  get1 (s_srunning (fold_left (fun st p => apply_reset st (snd p)) l st)) g =
  if existsb (fun e => match snd e with RStand g' => beq g g' | RMulti _ _ => false end) l
  then 0 else get1 (s_srunning st) g.
Proof.
  induction l as [|[t r] l IH]; intros st g; cbn [fold_left existsb]; [reflexivity|].
  rewrite IH. cbn [snd].
  destruct (existsb _ l) eqn:E; [now rewrite orb_true_r|]. rewrite orb_false_r.
  destruct r as [p t'|g']; cbn [apply_reset s_srunning]; [reflexivity|].
  destruct (beq_spec g g') as [->|Hne].
  - apply get1_aset_same.
  - now apply get1_aset_other.
Qed.

Lemma end_test_pending s t :
  s_pending (end_test s t) = filter (fun p => negb (beq (fst p) t)) (s_pending s).
Proof. unfold end_test. now rewrite fold_reset_pending'. Qed.

Lemma end_test_srunning s t g :
  get1 (s_srunning (end_test s t)) g =
  if existsb (fun e => match snd e with RStand g' => beq g g' | RMulti _ _ => false end)
             (filter (fun p => beq (fst p) t) (s_pending s))
  then 0 else get1 (s_srunning s) g.
Proof. unfold end_test. now rewrite fold_reset_srunning. Qed.

Lemma kinv_end_test g t n s t' :
  kinv g t n s -> kinv g t (if beq t' t then 0 else n) (end_test s t').
Proof.
  intros [H1 [H2 H3]]. unfold kinv. rewrite end_test_srunning, end_test_pending.
  destruct (beq_spec t' t) as [->|Hne].
  - split; [|split].
    + destruct (existsb _ _) eqn:E; [reflexivity|].
      destruct n as [|n]; [assumption|]. exfalso.
      assert (Hin : In (t, RStand g) (s_pending s)) by (apply H3; lia).
      assert (Ht : existsb (fun e => match snd e with RStand g' => beq g g' | RMulti _ _ => false end)
                     (filter (fun p => beq (fst p) t) (s_pending s)) = true).
      { apply existsb_exists. exists (t, RStand g). split.
        - apply filter_In. split; [assumption|]. cbn. apply beq_refl.
        - cbn. apply beq_refl. }
      congruence.
    + intros t'' Hin. apply filter_In in Hin as [Hin _]. now apply H2.
    + lia.
  - split; [|split].
    + destruct (existsb _ _) eqn:E; [|assumption]. exfalso.
      apply existsb_exists in E as [[t'' r] [Hin Hr]]. apply filter_In in Hin as [Hin Ht].
      cbn in Ht, Hr. apply beq_eq in Ht. subst t''.
      destruct r as [pa tt|g']; [discriminate|]. apply beq_eq in Hr. subst g'.
      apply Hne. now apply H2.
    + intros t'' Hin. apply filter_In in Hin as [Hin _]. now apply H2.
    + intros Hn. apply filter_In. split; [now apply H3|]. cbn.
      destruct (beq_spec t t') as [E|_]; [congruence|reflexivity].
Qed.

Lemma kinv_frame g t n s s' :
  s_srunning s' = s_srunning s ->
  (exists extra, s_pending s' = (s_pending s ++ extra)%list /\
                 forall e, In e extra -> forall t', e <> (t', RStand g)) ->
  kinv g t n s -> kinv g t n s'.
Proof.
  intros Hs [extra [Hp Hex]] [H1 [H2 H3]]. unfold kinv. rewrite Hs, Hp. split; [assumption|split].
  - intros t' Hin. apply in_app_or in Hin as [Hin|Hin]; [now apply H2|].
    exfalso. now apply (Hex _ Hin t').
  - intros Hn. apply in_or_app. left. now apply H3.
Qed.

Lemma kinv_same g t n s s' :
  s_srunning s' = s_srunning s -> s_pending s' = s_pending s -> kinv g t n s -> kinv g t n s'.
Proof.
  intros Hs Hp. apply kinv_frame; [assumption|]. exists []. split; [now rewrite app_nil_r|intros e []].
Qed.

(* one operation: the invariant moves to the new count, and a standalone call addresses the file
   whose ordinal is the registry count plus one *)
Lemma kinv_step g t n s o :
  kth_op_ok o -> kinv g t n s ->
  match stand_target s o with Some (g', t') => g' = g -> t' = t | None => True end ->
  kinv g t (kcount g t n s o) (fst (step s o)) /\
  (forall g' t', stand_target s o = Some (g', t') ->
     o_path (snd (step s o)) = subst_d g' (dec (S (get1 (s_srunning s) g')))).
Proof.
  intros Hk Hi Hu.
  destruct o as [a hd test p|test|test|fn d ex u|e|pa co|pa|]; unfold kcount; cbn [stand_target] in *.
  - destruct (is_standalone a) eqn:Hst.
    + destruct (nth_error (s_cfgs s) hd) as [c|] eqn:Ec.
      * rewrite (step_match_stand _ _ _ _ _ _ Hst Ec).
        destruct (stand_call_regs s a (eff_cfg a c) test p) as [Hs Hp].
        split.
        -- destruct Hi as [H1 [H2 H3]]. unfold kinv. rewrite Hs, Hp.
           destruct (beq_spec (stand_generic s (eff_cfg a c) test) g) as [Eg|Hne].
           ++ rewrite Eg in *. specialize (Hu eq_refl). subst test.
              split; [|split].
              ** rewrite get1_aset_same. now rewrite H1.
              ** intros t' Hin. apply in_app_or in Hin as [Hin|[E|[]]]; [now apply H2|congruence].
              ** intros _. apply in_or_app. right. now left.
           ++ split; [|split].
              ** rewrite get1_aset_other by congruence. assumption.
              ** intros t' Hin. apply in_app_or in Hin as [Hin|[E|[]]]; [now apply H2|].
                 exfalso. apply Hne. congruence.
              ** intros Hn. apply in_or_app. left. now apply H3.
        -- intros g' t' [= <- <-].
           rewrite (stand_call_path s a (eff_cfg a c) test p _ _ (surjective_pairing _)).
           reflexivity.
      * rewrite (step_match_nocfg _ _ _ _ _ Ec). cbn [fst]. split; [assumption|discriminate].
    + split; [|discriminate].
      destruct (nth_error (s_cfgs s) hd) as [c|] eqn:Ec.
      * rewrite (step_match_multi _ _ _ _ _ _ Hst Ec).
        destruct (multi_call_regs s a c test p) as [Hs [extra [Hp Hex]]].
        eapply kinv_frame; [exact Hs| |exact Hi].
        exists extra. split; [assumption|]. intros e Hin t' ->.
        destruct (Hex _ Hin) as [pa0 E]. discriminate.
      * rewrite (step_match_nocfg _ _ _ _ _ Ec). exact Hi.
  - split; [|discriminate]. cbn [step fst]. now apply kinv_end_test.
  - split; [|discriminate]. eapply kinv_same; [| |exact Hi]; reflexivity.
  - split; [|discriminate]. eapply kinv_same; [| |exact Hi]; reflexivity.
  - split; [|discriminate]. eapply kinv_same; [| |exact Hi]; reflexivity.
  - split; [|discriminate]. eapply kinv_same; [| |exact Hi]; reflexivity.
  - split; [|discriminate]. eapply kinv_same; [| |exact Hi]; reflexivity.
  - exfalso. now apply Hk.
Qed.

Lemma kinv_run g t h : forall s n,
  Forall kth_op_ok h -> only_user g t s h -> kinv g t n s ->
  exists n', kinv g t n' (fst (run s h)).
Proof.
  induction h as [|o r IH]; intros s n Hok Hu Hi; [exists n; exact Hi|].
  rewrite run_cons. cbn [fst]. inversion Hok as [|? ? Ho Hr]; subst. destruct Hu as [Hu1 Hu2].
  destruct (kinv_step g t n s o Ho Hi Hu1) as [Hi' _]. eapply IH; eauto.
Qed.

Lemma run_app_fst h1 : forall s h2, fst (run s (h1 ++ h2)) = fst (run (fst (run s h1)) h2).
Proof.
  induction h1 as [|o r IH]; intros s h2; [reflexivity|].
  cbn [app]. rewrite !run_cons. cbn [fst]. apply IH.
Qed.

Lemma only_user_app g t h1 : forall s h2,
  only_user g t s (h1 ++ h2) <-> only_user g t s h1 /\ only_user g t (fst (run s h1)) h2.
Proof.
  induction h1 as [|o r IH]; intros s h2; cbn [app only_user].
  - cbn. tauto.
  - rewrite run_cons. cbn [fst]. rewrite IH. tauto.
Qed.

Lemma stand_paths_app g h1 : forall s h2,
  stand_paths g s (h1 ++ h2) = (stand_paths g s h1 ++ stand_paths g (fst (run s h1)) h2)%list.
Proof.
  induction h1 as [|o r IH]; intros s h2; [reflexivity|].
  cbn [app stand_paths]. rewrite run_cons. cbn [fst]. rewrite IH. now rewrite app_assoc.
Qed.

(* from a state where g has been addressed n times since the last end of t: the i-th further
   call addresses file n + i *)
Lemma kth_run g t h : forall s n,
  Forall kth_op_ok h -> only_user g t s h -> ~ In (OEndTest t) h -> kinv g t n s ->
  forall i, i < length (stand_paths g s h) ->
  nth i (stand_paths g s h) [] = subst_d g (dec (n + S i)).
Proof.
  induction h as [|o r IH]; intros s n Hok Hu Hne Hi i Hlt; [cbn in Hlt; lia|].
  inversion Hok as [|? ? Ho Hr]; subst. destruct Hu as [Hu1 Hu2].
  destruct (kinv_step g t n s o Ho Hi Hu1) as [Hi' Hpath].
  assert (Hne' : ~ In (OEndTest t) r) by (intros H; apply Hne; now right).
  cbn [stand_paths] in *.
  destruct (stand_target s o) as [[g' t']|] eqn:Et.
  - destruct (beq_spec g' g) as [->|Hg].
    + assert (Hc : kcount g t n s o = S n).
      { unfold kcount. rewrite Et.
        destruct o; try discriminate Et. now rewrite beq_refl. }
      rewrite Hc in Hi'. cbn [app] in *. destruct i as [|i]; cbn [nth].
      * rewrite (Hpath _ _ eq_refl). destruct Hi as [H1 _]. rewrite H1. now rewrite Nat.add_1_r.
      * cbn [length] in Hlt. rewrite (IH _ _ Hr Hu2 Hne' Hi') by lia. f_equal. f_equal. lia.
    + assert (Hc : kcount g t n s o = n).
      { unfold kcount. rewrite Et. destruct o; try discriminate Et.
        destruct (beq_spec g' g); [contradiction|reflexivity]. }
      rewrite Hc in Hi'. cbn [app] in *. now apply (IH _ _ Hr Hu2 Hne' Hi').
  - assert (Hc : kcount g t n s o = n).
    { unfold kcount. rewrite Et. destruct o; try reflexivity.
      destruct (beq_spec test t) as [->|_]; [|reflexivity]. exfalso. apply Hne. now left. }
    rewrite Hc in Hi'. cbn [app] in *. now apply (IH _ _ Hr Hu2 Hne' Hi').
Qed.

Lemma kinv_fresh g t s0 : fresh s0 -> kinv g t 0 s0.
Proof.
  intros [_ [H2 [H3 _]]]. unfold kinv. rewrite H2, H3. split; [reflexivity|split].
  - intros t' [].
  - lia.
Qed.

(* The history is h1 ++ h2 from a fresh process; h1 is empty or ends with the last end of test t
   (no OEndTest t in h2); t is the only user of generic path g in the whole history. Then the
   i-th standalone call (i = 0, 1, ...) of h2 that addresses g - a call of t - goes to file i+1,
   whatever other tests, other paths and other APIs do in between. *)
Theorem standalone_kth_call s0 h1 h2 g t :
  fresh s0 -> Forall kth_op_ok (h1 ++ h2) -> only_user g t s0 (h1 ++ h2) ->
  (h1 = [] \/ exists h1', h1 = (h1' ++ [OEndTest t])%list) -> ~ In (OEndTest t) h2 ->
  forall i, i < length (stand_paths g (fst (run s0 h1)) h2) ->
  nth i (stand_paths g (fst (run s0 h1)) h2) [] = subst_d g (dec (S i)).
Proof.
  intros Hfr Hok Hu Hh1 Hne i Hlt.
  apply Forall_app in Hok as [Hok1 Hok2]. apply only_user_app in Hu as [Hu1 Hu2].
  assert (Hi : kinv g t 0 (fst (run s0 h1))).
  { destruct Hh1 as [->|[h1' ->]]; [cbn; now apply kinv_fresh|].
    apply Forall_app in Hok1 as [Hok1 _]. apply only_user_app in Hu1 as [Hu1 _].
    destruct (kinv_run g t h1' s0 0 Hok1 Hu1 (kinv_fresh g t s0 Hfr)) as [n' Hn'].
    rewrite run_app_fst. cbn [run step fst].
    pose proof (kinv_end_test g t n' _ t Hn') as H. now rewrite beq_refl in H. }
  rewrite (kth_run g t h2 _ 0 Hok2 Hu2 Hne Hi i Hlt). reflexivity.
Qed.

(* the same as a statement about the NEXT call: after h1 ++ h2 as above, a standalone call of t
   through a config whose generic path is g addresses the file whose ordinal is one more than the
   number of calls to g since the last end of t *)
Corollary standalone_next_call s0 h1 h2 a hd t p c :
  let s := fst (run s0 (h1 ++ h2)) in
  let g := snapshot_path (eff_cfg a c) (s_caller s) t true in
  fresh s0 -> Forall kth_op_ok (h1 ++ h2) -> only_user g t s0 (h1 ++ h2) ->
  (h1 = [] \/ exists h1', h1 = (h1' ++ [OEndTest t])%list) -> ~ In (OEndTest t) h2 ->
  is_standalone a = true -> nth_error (s_cfgs s) hd = Some c ->
  o_path (snd (step s (OMatch a hd t p))) =
  subst_d g (dec (S (length (stand_paths g (fst (run s0 h1)) h2)))).
Proof.
  intros s g Hfr Hok Hu Hh1 Hne Hst Hc.
  set (o := OMatch a hd t p).
  assert (Ht : stand_target s o = Some (g, t)).
  { unfold o. cbn [stand_target]. now rewrite Hst, Hc. }
  assert (Hs : fst (run (fst (run s0 h1)) h2) = s) by (unfold s; now rewrite run_app_fst).
  assert (Hp : stand_paths g (fst (run s0 h1)) (h2 ++ [o]) =
               (stand_paths g (fst (run s0 h1)) h2 ++ [o_path (snd (step s o))])%list).
  { rewrite stand_paths_app, Hs. cbn [stand_paths]. rewrite Ht, beq_refl. now rewrite app_nil_r. }
  pose proof (standalone_kth_call s0 h1 (h2 ++ [o]) g t Hfr) as H.
  rewrite Hp in H. rewrite app_length in H. cbn [length] in H.
  specialize (H ltac:(rewrite app_assoc; apply Forall_app; split; [assumption|];
                      constructor; [discriminate|constructor])).
  assert (Hu' : only_user g t s0 (h1 ++ h2 ++ [o])).
  { rewrite app_assoc. apply only_user_app. split; [assumption|].
    fold s. cbn [only_user]. rewrite Ht. auto. }
  specialize (H Hu' Hh1).
  assert (Hne' : ~ In (OEndTest t) (h2 ++ [o])).
  { intros Hin. apply in_app_or in Hin as [Hin|[E|[]]]; [now apply Hne|discriminate]. }
  specialize (H Hne' (length (stand_paths g (fst (run s0 h1)) h2)) ltac:(lia)).
  rewrite app_nth2 in H by lia. rewrite Nat.sub_diag in H. exact H.
Qed.

(* ====================================================================================== *)
(* 7. Union: histories mixing the multi-entry and the standalone APIs                      *)
(* ====================================================================================== *)

(* multi-entry files are well-formed on the part M of the name space *)
Definition wf_on (M : bytes -> Prop) (fs : list (bytes * bytes)) : Prop :=
  forall p f, M p -> alookup p fs = Some f -> wf_file f.

Lemma wf_on_file_or_empty M fs p : wf_on M fs -> M p -> wf_file (file_or_empty fs p).
Proof.
  intros H Hp. unfold file_or_empty. destruct (alookup p fs) eqn:E; [eauto|apply wf_file_nil].
Qed.

(* ApiP.add_preserves / add_holds need well-formedness of the one file that is appended to only *)
Lemma add_preserves_loc fs p id snap :
  wf_file (file_or_empty fs p) -> safe_line id -> safe_text snap ->
  forall fct, holds fs fct ->
  holds (aset p (add_entry id snap (file_or_empty fs p)) fs) fct.
Proof.
  intros Hwf Hid Hsn [[[p' id'] a'] t'] [prev [n [Hl Hs]]].
  exists prev, n. split; [|assumption].
  unfold lookup_slot in *. destruct (beq_spec p' p) as [->|Hne].
  - rewrite alookup_aset_same. unfold file_or_empty in *.
    destruct (alookup p fs) as [f|] eqn:E; [|discriminate].
    apply get_prev_add_other; eauto.
  - now rewrite alookup_aset_other.
Qed.

Lemma add_holds_loc fs p id a text :
  wf_file (file_or_empty fs p) -> safe_line id -> id <> [] -> id <> endseq -> value_ok a text ->
  lookup_slot fs p id = None ->
  holds (aset p (add_entry id (snap_of a text) (file_or_empty fs p)) fs) (p, id, a, text).
Proof.
  intros Hwf Hid Hne Hnend Hv Hnone.
  destruct (snap_of_ok _ _ Hv) as [Hs He].
  destruct (get_prev_add_new (file_or_empty fs p) id (snap_of a text)) as [n Hn]; auto.
  - now apply lookup_slot_none_file.
  - exists (snap_of a text), n. split; [|apply same_snap].
    unfold lookup_slot. now rewrite alookup_aset_same.
Qed.

(* a recording multi-entry call without rewrites: the slot already replayed the value and nothing
   changed, or the slot did not exist and the entry was appended *)
Lemma multi_rec_step s a c test p :
  is_standalone a = false -> rec_ok (snd (multi_call s a c test p)) ->
  exists text, p = POk text /\
    ((holds (s_fs s) (multi_path s c test, multi_id s c test, a, text) /\
      s_fs (fst (multi_call s a c test p)) = s_fs s) \/
     (lookup_slot (s_fs s) (multi_path s c test) (multi_id s c test) = None /\
      s_fs (fst (multi_call s a c test p)) =
        aset (multi_path s c test)
             (add_entry (multi_id s c test) (snap_of a text)
                        (file_or_empty (s_fs s) (multi_path s c test))) (s_fs s))).
Proof.
  intros Hst Hrec.
  destruct p as [| | |text];
    try (exfalso; eapply (multi_call_bad s a c test); [exact Hst| |exact Hrec];
         intros t; discriminate).
  exists text. split; [reflexivity|].
  destruct (multi_call_spec s a c test text Hst) as [s2 [o2 [E [_ [_ [_ [_ [_ [_ [_ [Hm _]]]]]]]]]]].
  rewrite E in *. cbn [fst snd] in *. unfold rec_ok in Hrec.
  destruct (lookup_slot (s_fs s) (multi_path s c test) (multi_id s c test)) as [[prev line]|] eqn:El.
  - destruct (same a prev text) eqn:Es.
    + left. destruct Hm as [_ [_ [Hfs _]]]. split; [|assumption].
      unfold holds. rewrite El. eauto.
    + exfalso. destruct (should_update _ _); destruct Hm as [Ho _]; rewrite Ho in Hrec;
        intuition discriminate.
  - destruct (should_create _ _).
    + right. destruct Hm as [_ [_ Hfs]]. auto.
    + exfalso. destruct Hm as [Ho _]. rewrite Ho in Hrec. intuition discriminate.
Qed.

Lemma holds_aset_other fs q v fct : fpath fct <> q -> holds fs fct -> holds (aset q v fs) fct.
Proof.
  destruct fct as [[[p id] a] t]. unfold fpath, holds, lookup_slot. cbn [fst]. intros Hne H.
  now rewrite alookup_aset_other.
Qed.

Lemma wf_on_aset_other (M : bytes -> Prop) fs q v : ~ M q -> wf_on M fs -> wf_on M (aset q v fs).
Proof.
  intros Hq H p f Hp. rewrite alookup_aset_other; [now apply H|]. intros ->. contradiction.
Qed.

Lemma wf_on_aset M fs q v : wf_file v -> wf_on M fs -> wf_on M (aset q v fs).
Proof.
  intros Hv H p f Hp. destruct (beq_spec p q) as [->|Hne].
  - rewrite alookup_aset_same. now intros [= <-].
  - rewrite alookup_aset_other by assumption. now apply H.
Qed.

Lemma mfact_of_nocfg s a hd test p :
  nth_error (s_cfgs s) hd = None -> mfact_of s (OMatch a hd test p) = [].
Proof.
  intros E. cbn [mfact_of fact_of]. rewrite E. destruct (is_standalone a), p; reflexivity.
Qed.

Lemma sfact_of_nocfg s a hd test p :
  nth_error (s_cfgs s) hd = None -> sfact_of s (OMatch a hd test p) = [].
Proof.
  intros E. cbn [sfact_of]. rewrite E. destruct (is_standalone a), p; reflexivity.
Qed.

(* the recording run: multi-entry paths live in M, standalone paths outside M *)
Lemma record_run_mixed (M : bytes -> Prop) h : forall s,
  Forall mixed_op_ok h -> wf_on M (s_fs s) ->
  Forall (fun f => M (fpath f)) (mfacts s h) -> Forall (fun f => ~ M (fst f)) (sfacts s h) ->
  Forall rec_ok (snd (run s h)) ->
  let s1 := fst (run s h) in
  Forall (holds (s_fs s1)) (mfacts s h) /\ Forall (sholds (s_fs s1)) (sfacts s h) /\
  (forall fct, M (fpath fct) -> holds (s_fs s) fct -> holds (s_fs s1) fct) /\
  (forall f, ~ M (fst f) -> sholds (s_fs s) f -> sholds (s_fs s1) f).
Proof.
  induction h as [|o r IH]; intros s Hok Hwf HM HS Hrec; cbn zeta.
  - cbn. repeat split; auto.
  - rewrite run_cons in *. cbn [fst snd] in *.
    inversion Hok as [|? ? Ho Hr]; subst. inversion Hrec as [|? ? Ho1 Hr1]; subst.
    cbn [mfacts sfacts] in *.
    apply Forall_app in HM as [HM1 HM2]. apply Forall_app in HS as [HS1 HS2].
    assert (Hstep : wf_on M (s_fs (fst (step s o))) /\
                    Forall (holds (s_fs (fst (step s o)))) (mfact_of s o) /\
                    Forall (sholds (s_fs (fst (step s o)))) (sfact_of s o) /\
                    (forall fct, M (fpath fct) -> holds (s_fs s) fct ->
                                 holds (s_fs (fst (step s o))) fct) /\
                    (forall f, ~ M (fst f) -> sholds (s_fs s) f ->
                               sholds (s_fs (fst (step s o))) f)).
    { destruct o as [a hd test p|test|test|fn d ex u|e|pa co|pa|];
        try (exfalso; destruct Ho as [Ho|Ho]; exact Ho).
      - destruct (nth_error (s_cfgs s) hd) as [c|] eqn:Ec.
        + cbn [mfact_of sfact_of] in *. rewrite Ec in *.
          destruct (is_standalone a) eqn:Hst.
          * (* standalone call *)
            rewrite (step_match_stand _ _ _ _ _ _ Hst Ec) in *.
            destruct (stand_rec_step s a (eff_cfg a c) test p Ho1) as [text [-> [[Hl Hfs]|[Hl Hfs]]]];
              rewrite Hfs.
            -- repeat split; auto.
            -- inversion HS1 as [|? ? HnM _]; subst. cbn [fst] in HnM.
               split; [now apply wf_on_aset_other|]. split; [constructor|]. split; [|split].
               ++ constructor; [|constructor]. unfold sholds. cbn [fst snd]. apply alookup_aset_same.
               ++ intros fct HMf Hh. apply holds_aset_other; [|assumption]. intros E.
                  rewrite E in HMf. contradiction.
               ++ intros [q v] _ Hh. apply sholds_aset_other; [|assumption]. unfold sholds in Hh.
                  cbn [fst snd] in *. intros ->. congruence.
          * (* multi-entry call *)
            assert (Hh : hist_op_ok (OMatch a hd test p)).
            { destruct Ho as [Ho|Ho]; [assumption|]. cbn [stand_op_ok] in Ho. congruence. }
            destruct Hh as [_ [Hnl Hv]].
            rewrite (step_match_multi _ _ _ _ _ _ Hst Ec) in *.
            destruct (multi_rec_step s a c test p Hst Ho1) as [text [-> [[Hh Hfs]|[Hl Hfs]]]];
              rewrite Hfs; cbn [fact_of] in *; rewrite Ec in *.
            -- repeat split; auto.
            -- inversion HM1 as [|? ? HMp _]; subst. unfold fpath in HMp. cbn [fst] in HMp.
               assert (Hid : safe_line (multi_id s c test)) by now apply header_safe.
               destruct (snap_of_ok _ _ Hv) as [Hsn _].
               assert (Hwf0 : wf_file (file_or_empty (s_fs s) (multi_path s c test)))
                 by now apply (wf_on_file_or_empty M).
               split; [apply wf_on_aset; [now apply wf_file_add|assumption]|].
               split; [|split; [constructor|split]].
               ++ constructor; [|constructor].
                  apply add_holds_loc; auto; unfold multi_id;
                    [apply header_nonempty|apply header_not_endseq].
               ++ intros fct _ Hh. now apply add_preserves_loc.
               ++ intros [q v] HnM Hh. apply sholds_aset_other; [|assumption]. cbn [fst] in *.
                  intros ->. contradiction.
        + rewrite (step_match_nocfg _ _ _ _ _ Ec). cbn [fst].
          rewrite mfact_of_nocfg, sfact_of_nocfg by assumption. repeat split; auto.
      - cbn [step fst mfact_of sfact_of]. rewrite end_test_fs. repeat split; auto.
      - cbn [step fst mfact_of sfact_of s_fs]. repeat split; auto. }
    destruct Hstep as [Hwf1 [Hm1 [Hs1 [Hpm1 Hps1]]]].
    destruct (IH (fst (step s o)) Hr Hwf1 HM2 HS2 Hr1) as [Hm2 [Hs2 [Hpm2 Hps2]]].
    split; [|split; [|split]].
    + apply Forall_app. split; [|assumption].
      rewrite Forall_forall in *. intros fct Hin. apply Hpm2; auto.
    + apply Forall_app. split; [|assumption].
      rewrite Forall_forall in *. intros f Hin. apply Hps2; auto.
    + auto.
    + auto.
Qed.

Lemma replay_run_mixed h : forall t,
  Forall mixed_op_ok h -> Forall (holds (s_fs t)) (mfacts t h) ->
  Forall (sholds (s_fs t)) (sfacts t h) -> Forall has_value h ->
  Forall silent_pass (snd (run t h)) /\ s_fs (fst (run t h)) = s_fs t.
Proof.
  induction h as [|o r IH]; intros t Hok Hm Hs Hp.
  - cbn. split; [constructor|reflexivity].
  - rewrite run_cons. cbn [fst snd].
    inversion Hok as [|? ? Ho Hr]; subst. inversion Hp as [|? ? Hv Hvr]; subst.
    cbn [mfacts sfacts] in Hm, Hs.
    apply Forall_app in Hm as [Hm1 Hm2]. apply Forall_app in Hs as [Hs1 Hs2].
    assert (Hstep : silent_pass (snd (step t o)) /\ s_fs (fst (step t o)) = s_fs t).
    { destruct o as [a hd test p|test|test|fn d ex u|e|pa co|pa|];
        try (exfalso; destruct Ho as [Ho|Ho]; exact Ho).
      - destruct Hv as [text ->]. cbn [mfact_of sfact_of fact_of] in *.
        destruct (nth_error (s_cfgs t) hd) as [c|] eqn:Ec.
        + destruct (is_standalone a) eqn:Hst.
          * rewrite (step_match_stand _ _ _ _ _ _ Hst Ec).
            inversion Hs1 as [|? ? Hh _]; subst. now apply stand_replay_step.
          * rewrite (step_match_multi _ _ _ _ _ _ Hst Ec).
            inversion Hm1 as [|? ? Hh _]; subst.
            destruct (multi_replay t a c test text Hst Hh) as [s' [ob [E [H1 [H2 [H3 [H4 H5]]]]]]].
            rewrite E. cbn [fst snd]. split; [|assumption]. unfold silent_pass. auto.
        + rewrite (step_match_nocfg _ _ _ _ _ Ec). cbn. unfold silent_pass. cbn. repeat split; auto.
      - cbn [step fst snd]. rewrite end_test_fs. unfold silent_pass. cbn. repeat split; auto.
      - cbn [step fst snd s_fs]. unfold silent_pass. cbn. repeat split; auto. }
    destruct Hstep as [Hs1' Hfs1].
    destruct (IH (fst (step t o)) Hr) as [Hs2' Hfs2]; try assumption.
    + now rewrite Hfs1.
    + now rewrite Hfs1.
    + split; [constructor; assumption|]. now rewrite Hfs2.
Qed.

(* no standalone file of the history is a multi-entry file of the history *)
Definition disjoint_paths (ms : list fact) (ss : list sfact) : Prop :=
  forall f sf, In f ms -> In sf ss -> fpath f <> fst sf.

(* General form: only the files the multi-entry calls of the history address must be well-formed
   (when they exist); everything else in the initial file system is arbitrary - in particular it
   may already contain standalone files with arbitrary bytes. *)
Theorem replay_after_create_all_gen s0 h e2 :
  fresh s0 -> Forall mixed_op_ok h -> Forall has_value h ->
  wf_on (fun p => In p (map fpath (mfacts s0 h))) (s_fs s0) ->
  disjoint_paths (mfacts s0 h) (sfacts s0 h) ->
  Forall rec_ok (snd (run s0 h)) ->
  let s1 := fst (run s0 h) in
  let t0 := replay_start s1 e2 in
  Forall silent_pass (snd (run t0 h)) /\ s_fs (fst (run t0 h)) = s_fs s1.
Proof.
  intros Hfr Hok Hval Hwf Hdis Hrec s1 t0.
  destruct (record_run_mixed (fun p => In p (map fpath (mfacts s0 h))) h s0 Hok Hwf)
    as [Hm [Hs _]]; try assumption.
  - apply Forall_forall. intros f Hin. now apply in_map.
  - apply Forall_forall. intros sf Hin Hin'. apply in_map_iff in Hin' as [f [E Hf]].
    now apply (Hdis f sf).
  - fold s1 in Hm, Hs.
    pose proof (replay_view s0 h e2 Hfr Hok) as Hview. fold s1 t0 in Hview.
    assert (Hfs : s_fs t0 = s_fs s1) by reflexivity.
    destruct (mixed_facts_view h s0 t0 Hok Hview) as [Hmf Hsf].
    destruct (replay_run_mixed h t0 Hok) as [H1 H2].
    + rewrite <- Hmf, Hfs. exact Hm.
    + rewrite <- Hsf, Hfs. exact Hs.
    + assumption.
    + split; [assumption|]. now rewrite H2.
Qed.

(* With the hypotheses of HistoryP.replay_after_create (every initial file is a well-formed
   multi-entry file). *)
Theorem replay_after_create_all s0 h e2 :
  fresh s0 -> wf_fs (s_fs s0) -> Forall mixed_op_ok h -> Forall has_value h ->
  disjoint_paths (mfacts s0 h) (sfacts s0 h) ->
  Forall rec_ok (snd (run s0 h)) ->
  let s1 := fst (run s0 h) in
  let t0 := replay_start s1 e2 in
  Forall silent_pass (snd (run t0 h)) /\ s_fs (fst (run t0 h)) = s_fs s1.
Proof.
  intros Hfr Hwf Hok Hval Hdis Hrec.
  apply replay_after_create_all_gen; try assumption.
  intros p f _ Hl. now apply (Hwf p f).
Qed.

(* the two earlier theorems are instances: a history of multi-entry calls has no standalone fact *)
Lemma sfacts_hist h : forall s, Forall hist_op_ok h -> sfacts s h = [].
Proof.
  induction h as [|o r IH]; intros s Hok; [reflexivity|].
  inversion Hok as [|? ? Ho Hr]; subst. cbn [sfacts]. rewrite (IH _ Hr), app_nil_r.
  destruct o as [a hd test p|test|test|fn d ex u|e|pa co|pa|]; cbn [hist_op_ok] in Ho;
    try contradiction; try reflexivity.
  destruct Ho as [Hst _]. cbn [sfact_of]. rewrite Hst. destruct p; reflexivity.
Qed.

Lemma mfacts_stand h : forall s, Forall stand_op_ok h -> mfacts s h = [].
Proof.
  induction h as [|o r IH]; intros s Hok; [reflexivity|].
  inversion Hok as [|? ? Ho Hr]; subst. cbn [mfacts]. rewrite (IH _ Hr), app_nil_r.
  destruct o as [a hd test p|test|test|fn d ex u|e|pa co|pa|]; cbn [stand_op_ok] in Ho;
    try contradiction; try reflexivity.
  cbn [mfact_of]. now rewrite Ho.
Qed.

Corollary replay_after_create_all_multi s0 h e2 :
  fresh s0 -> wf_fs (s_fs s0) -> Forall hist_op_ok h -> Forall has_value h ->
  Forall rec_ok (snd (run s0 h)) ->
  let s1 := fst (run s0 h) in
  let t0 := replay_start s1 e2 in
  Forall silent_pass (snd (run t0 h)) /\ s_fs (fst (run t0 h)) = s_fs s1.
Proof.
  intros Hfr Hwf Hok Hval Hrec.
  apply replay_after_create_all; try assumption; [now apply hist_is_mixed|].
  intros f sf _ Hin. rewrite (sfacts_hist h s0 Hok) in Hin. destruct Hin.
Qed.

Corollary replay_after_create_all_stand s0 h e2 :
  fresh s0 -> Forall stand_op_ok h -> Forall has_value h ->
  Forall rec_ok (snd (run s0 h)) ->
  let s1 := fst (run s0 h) in
  let t0 := replay_start s1 e2 in
  Forall silent_pass (snd (run t0 h)) /\ s_fs (fst (run t0 h)) = s_fs s1.
Proof.
  intros Hfr Hok Hval Hrec.
  apply replay_after_create_all_gen; try assumption; [now apply stand_is_mixed| |].
  - intros p f Hin. rewrite (mfacts_stand h s0 Hok) in Hin. destruct Hin.
  - intros f sf Hin. rewrite (mfacts_stand h s0 Hok) in Hin. destruct Hin.
Qed.

(* ====================================================================================== *)
(* 8. Computed examples and counterexamples                                                *)
(* ====================================================================================== *)

Definition sx_env := {| ci := false; upd := UUnset; colour := false |}.
Definition sx_env_ci := {| ci := true; upd := UUnset; colour := false |}.
Definition sx_env_upd := {| ci := false; upd := UTrue; colour := false |}.
Definition sx_s0 := init_state sx_env (B "/r/x_test.go") (B "__snapshots__").

(* ---------- non-vacuity of standalone_replay_after_create ----------
   Two tests interleave through one shared `Filename` config (handle 1); values are arbitrary
   bytes (CR, NUL, 0xFF, newline, the empty value); MatchStandaloneJSON uses its own generic path;
   after TestA ends the shared registry slot restarts, and TestB's next call lands on file 1 again
   and passes against what TestA wrote (same bytes). *)
Definition sx_h : list op :=
  [ONewConfig (Some (B "shared")) None None None;
   OMatch AStand 1 (B "TestA") (POk [13; 0; 255]%N);
   OMatch AStand 1 (B "TestB") (POk [255; 13; 10; 0]%N);
   OMatch AStandJson 1 (B "TestA") (POk [0]%N);
   OMatch AStand 1 (B "TestA") (POk []);
   OMatch AStand 0 (B "TestB/sub") (POk [13; 10; 13]%N);
   OEndTest (B "TestA");
   OMatch AStand 1 (B "TestB") (POk [13; 0; 255]%N);
   OMatch AStand 7 (B "TestB") (POk [1]%N);
   OEndTest (B "TestB")].

Ltac forall_by_compute :=
  vm_compute;
  repeat (apply Forall_cons; [first [exact I | reflexivity | eexists; reflexivity | tauto | auto 6]|]);
  apply Forall_nil.

(* every hypothesis of standalone_replay_after_create holds (handle 7 does not exist: no call) *)
Example sx_hyps :
  fresh sx_s0 /\ Forall stand_op_ok sx_h /\ Forall has_value sx_h /\
  Forall rec_ok (snd (run sx_s0 sx_h)).
Proof.
  split; [repeat split|]. split; [forall_by_compute|]. split; forall_by_compute.
Qed.

Example sx_recording :
  map o_outcome (snd (run sx_s0 sx_h)) =
    [NoCall; Added; Added; Added; Added; Added; NoCall; Passed; NoCall; NoCall] /\
  map o_path (snd (run sx_s0 sx_h)) =
    [[]; B "/r/__snapshots__/shared_1.snap"; B "/r/__snapshots__/shared_2.snap";
     B "/r/__snapshots__/shared_1.snap.json"; B "/r/__snapshots__/shared_3.snap";
     B "/r/__snapshots__/TestB_sub_1.snap"; []; B "/r/__snapshots__/shared_1.snap"; []; []] /\
  s_fs (fst (run sx_s0 sx_h)) =
    [(B "/r/__snapshots__/shared_1.snap", [13; 0; 255]%N);
     (B "/r/__snapshots__/shared_2.snap", [255; 13; 10; 0]%N);
     (B "/r/__snapshots__/shared_1.snap.json", [0]%N);
     (B "/r/__snapshots__/shared_3.snap", []);
     (B "/r/__snapshots__/TestB_sub_1.snap", [13; 10; 13]%N)].
Proof. repeat split; vm_compute; reflexivity. Qed.

(* the replay, computed in three modes: read-only CI, update mode, default mode *)
Example sx_replay_computed :
  forall e2, In e2 [sx_env_ci; sx_env_upd; sx_env] ->
  map o_outcome (snd (run (replay_start (fst (run sx_s0 sx_h)) e2) sx_h)) =
    [NoCall; Passed; Passed; Passed; Passed; Passed; NoCall; Passed; NoCall; NoCall] /\
  map o_writes (snd (run (replay_start (fst (run sx_s0 sx_h)) e2) sx_h)) =
    [[]; []; []; []; []; []; []; []; []; []] /\
  s_fs (fst (run (replay_start (fst (run sx_s0 sx_h)) e2) sx_h)) = s_fs (fst (run sx_s0 sx_h)).
Proof.
  intros e2 [<-|[<-|[<-|[]]]]; repeat split; vm_compute; reflexivity.
Qed.

(* and by the theorem, in every mode *)
Example sx_replay_by_theorem : forall e2,
  Forall silent_pass (snd (run (replay_start (fst (run sx_s0 sx_h)) e2) sx_h)) /\
  s_fs (fst (run (replay_start (fst (run sx_s0 sx_h)) e2) sx_h)) = s_fs (fst (run sx_s0 sx_h)).
Proof.
  intros e2. destruct sx_hyps as [H1 [H2 [H3 H4]]].
  exact (standalone_replay_after_create sx_s0 sx_h e2 H1 H2 H3 H4).
Qed.

(* the ordinal theorem on the same history: since the start TestA is NOT the only user of the
   shared path (TestB took file 2, so TestA's second call went to file 3) - the "only user"
   hypothesis of standalone_kth_call is necessary; TestB/sub is the only user of its own path *)
Example sx_shared_ordinals :
  stand_paths (B "/r/__snapshots__/shared_%d.snap") sx_s0 sx_h =
    [B "/r/__snapshots__/shared_1.snap"; B "/r/__snapshots__/shared_2.snap";
     B "/r/__snapshots__/shared_3.snap"; B "/r/__snapshots__/shared_1.snap"] /\
  ~ only_user (B "/r/__snapshots__/shared_%d.snap") (B "TestA") sx_s0 sx_h /\
  only_user (B "/r/__snapshots__/TestB_sub_%d.snap") (B "TestB/sub") sx_s0 sx_h.
Proof.
  split; [vm_compute; reflexivity|]. split.
  - intros H. vm_compute in H. destruct H as [_ [_ [H _]]]. specialize (H eq_refl). discriminate H.
  - vm_compute. repeat split; intros; try discriminate; reflexivity.
Qed.

(* non-vacuity of standalone_kth_call: TestA is the only user of its default path; TestB, a
   MatchSnapshot call, a MatchStandaloneJSON call of TestA (another generic path) and the end of
   TestB happen in between; h1 ends with the last end of TestA *)
Definition kx_h1 : list op :=
  [OMatch AStand 0 (B "TestA") (POk [1]%N);
   OMatch AStand 0 (B "TestB") (POk [2]%N);
   OMatch AStand 0 (B "TestA") (POk [3]%N);
   OEndTest (B "TestA")].
Definition kx_h2 : list op :=
  [OMatch AStand 0 (B "TestB") (POk [4]%N);
   OMatch AStand 0 (B "TestA") (POk [1]%N);
   OMatch ASnap 0 (B "TestA") (POk [5]%N);
   OMatch AStandJson 0 (B "TestA") (POk [6]%N);
   OMatch AStand 0 (B "TestA") PMatchErr;
   OEndTest (B "TestB");
   OSkip (B "TestC");
   OMatch AStand 0 (B "TestA") (POk [7]%N)].

Example kx_kth :
  let g := B "/r/__snapshots__/TestA_%d.snap" in
  fresh sx_s0 /\ Forall kth_op_ok (kx_h1 ++ kx_h2) /\
  only_user g (B "TestA") sx_s0 (kx_h1 ++ kx_h2) /\
  ~ In (OEndTest (B "TestA")) kx_h2 /\
  stand_paths g (fst (run sx_s0 kx_h1)) kx_h2 =
    [B "/r/__snapshots__/TestA_1.snap"; B "/r/__snapshots__/TestA_2.snap";
     B "/r/__snapshots__/TestA_3.snap"] /\
  map o_outcome (snd (run (fst (run sx_s0 kx_h1)) kx_h2)) =
    [Added; Passed; Added; Added; Failed EMatchers; NoCall; SkipLogged; Added].
Proof.
  cbv zeta. split; [repeat split|]. split.
  { repeat (apply Forall_cons; [discriminate|]). apply Forall_nil. }
  split.
  { vm_compute. repeat split; intros; try discriminate; reflexivity. }
  split.
  { intros H. vm_compute in H. repeat (destruct H as [H|H]; [discriminate H|]). exact H. }
  split; vm_compute; reflexivity.
Qed.

(* ---------- standalone_replay_after_update: the one-value-per-file hypothesis is necessary ------
   TestA writes file 1 through the shared config and ends; TestB then addresses file 1 with other
   bytes; in update mode the file is replaced wholesale (outcomes added, updated). The replay's
   first call no longer finds its value: it fails in CI and rewrites the file in update mode. *)
Definition su_s0 := init_state sx_env_upd (B "/r/x_test.go") (B "__snapshots__").
Definition su_h : list op :=
  [ONewConfig (Some (B "shared")) None None None;
   OMatch AStand 1 (B "TestA") (POk [1]%N);
   OEndTest (B "TestA");
   OMatch AStand 1 (B "TestB") (POk [2]%N)].

Example standalone_update_needs_consistency :
  fresh su_s0 /\ Forall stand_op_ok su_h /\ Forall has_value su_h /\
  Forall rec_ok_upd (snd (run su_s0 su_h)) /\
  map o_outcome (snd (run su_s0 su_h)) = [NoCall; Added; NoCall; Updated] /\
  sfacts su_s0 su_h = [(B "/r/__snapshots__/shared_1.snap", [1]%N);
                       (B "/r/__snapshots__/shared_1.snap", [2]%N)] /\
  ~ sconsistent (sfacts su_s0 su_h) /\
  map o_outcome (snd (run (replay_start (fst (run su_s0 su_h)) sx_env_ci) su_h)) =
    [NoCall; Failed EDiff; NoCall; Passed] /\
  map o_outcome (snd (run (replay_start (fst (run su_s0 su_h)) sx_env_upd) su_h)) =
    [NoCall; Updated; NoCall; Updated].
Proof.
  split; [repeat split|]. split; [forall_by_compute|]. split; [forall_by_compute|].
  split; [forall_by_compute|]. split; [vm_compute; reflexivity|].
  assert (E : sfacts su_s0 su_h = [(B "/r/__snapshots__/shared_1.snap", [1]%N);
                                   (B "/r/__snapshots__/shared_1.snap", [2]%N)])
    by (vm_compute; reflexivity).
  split; [exact E|]. split.
  - rewrite E. intros H.
    specialize (H (B "/r/__snapshots__/shared_1.snap") [1]%N [2]%N
                  (or_introl eq_refl) (or_intror (or_introl eq_refl))).
    discriminate H.
  - split; vm_compute; reflexivity.
Qed.

(* ---------- replay_after_create_all: the disjointness hypothesis is necessary ----------
   A Config with Filename "a" used by MatchStandaloneSnapshot and a Config with Filename "a_1"
   used by MatchSnapshot address the same file a_1.snap. The standalone call creates it with its
   value, the MatchSnapshot call appends its entry (both `added`); in the replay the standalone
   call sees value + entry and fails. Every other hypothesis holds. *)
Definition cx_h : list op :=
  [ONewConfig (Some (B "a_1")) None None None;
   ONewConfig (Some (B "a")) None None None;
   OMatch AStand 2 (B "TestS") (POk (B "v"));
   OMatch ASnap 1 (B "TestM") (POk (B "w"))].

Example union_needs_disjointness :
  fresh sx_s0 /\ wf_fs (s_fs sx_s0) /\ Forall mixed_op_ok cx_h /\ Forall has_value cx_h /\
  Forall rec_ok (snd (run sx_s0 cx_h)) /\
  map o_outcome (snd (run sx_s0 cx_h)) = [NoCall; NoCall; Added; Added] /\
  map o_path (snd (run sx_s0 cx_h)) =
    [[]; []; B "/r/__snapshots__/a_1.snap"; B "/r/__snapshots__/a_1.snap"] /\
  ~ disjoint_paths (mfacts sx_s0 cx_h) (sfacts sx_s0 cx_h) /\
  map o_outcome (snd (run (replay_start (fst (run sx_s0 cx_h)) sx_env_ci) cx_h)) =
    [NoCall; NoCall; Failed EDiff; Passed].
Proof.
  split; [repeat split|]. split; [intros p f H; discriminate H|].
  split.
  { repeat apply Forall_cons; try apply Forall_nil; try (left; exact I).
    - right. reflexivity.
    - left. cbn [hist_op_ok]. split; [reflexivity|]. split.
      + unfold no_nl. vm_compute. intuition discriminate.
      + split; [|intros; discriminate].
        unfold safe_text. vm_compute. repeat constructor. intuition discriminate. }
  split; [forall_by_compute|]. split; [forall_by_compute|].
  split; [vm_compute; reflexivity|]. split; [vm_compute; reflexivity|]. split.
  - intros H.
    apply (H (B "/r/__snapshots__/a_1.snap", header (B "TestM") 1, ASnap, B "w")
             (B "/r/__snapshots__/a_1.snap", B "v")).
    + vm_compute. left. reflexivity.
    + vm_compute. left. reflexivity.
    + reflexivity.
  - vm_compute. reflexivity.
Qed.

(* the mixed theorem is not vacuous: the same calls through configs with distinct files *)
Definition mx_h : list op :=
  [ONewConfig (Some (B "a_1")) None None None;
   ONewConfig (Some (B "b")) None None None;
   OMatch AStand 2 (B "TestS") (POk [13; 0; 255]%N);
   OMatch ASnap 1 (B "TestM") (POk (B "w"));
   OMatch AStand 2 (B "TestM") (POk [10; 45; 45; 45; 10]%N);
   OMatch ASnap 1 (B "TestS") (POk (B "---"))].

Example mixed_example :
  fresh sx_s0 /\ wf_fs (s_fs sx_s0) /\ Forall has_value mx_h /\
  Forall rec_ok (snd (run sx_s0 mx_h)) /\
  disjoint_paths (mfacts sx_s0 mx_h) (sfacts sx_s0 mx_h) /\
  map o_path (snd (run sx_s0 mx_h)) =
    [[]; []; B "/r/__snapshots__/b_1.snap"; B "/r/__snapshots__/a_1.snap";
     B "/r/__snapshots__/b_2.snap"; B "/r/__snapshots__/a_1.snap"] /\
  map o_outcome (snd (run (replay_start (fst (run sx_s0 mx_h)) sx_env_ci) mx_h)) =
    [NoCall; NoCall; Passed; Passed; Passed; Passed].
Proof.
  split; [repeat split|]. split; [intros p f H; discriminate H|].
  split; [forall_by_compute|]. split; [forall_by_compute|]. split.
  - intros f sf Hf Hs. vm_compute in Hf, Hs.
    destruct Hf as [<-|[<-|[]]]; destruct Hs as [<-|[<-|[]]]; vm_compute; discriminate.
  - split; vm_compute; reflexivity.
Qed.

Print Assumptions standalone_replay_after_create.
Print Assumptions standalone_replay_after_update.
Print Assumptions standalone_update_needs_consistency.
Print Assumptions standalone_kth_call.
Print Assumptions standalone_next_call.
Print Assumptions replay_after_create_all_gen.
Print Assumptions replay_after_create_all.
Print Assumptions replay_after_create_all_multi.
Print Assumptions replay_after_create_all_stand.
Print Assumptions union_needs_disjointness.
Print Assumptions sx_hyps.
Print Assumptions sx_replay_computed.
Print Assumptions sx_replay_by_theorem.
Print Assumptions mixed_example.
Print Assumptions kx_kth.
