#!/bin/sh
# matrix.sh: every seeded mutation (that applies) x every check, in scratch worktrees; results in /tmp/matrix/<name>.json
mkdir -p /tmp/matrix
ALL="C01 C02 C03 C04 C05 C06 C07 C08 C09 C10 C11 C12 C13 C14 C15 C16 C17 C18 C19 C20"
for d in /verif/seeded/*/; do
  name=$(basename $d)
  [ -f $d/patch.diff ] || continue
  ( python3 /verif/tools/evalmut_nodemo.py $d $name $ALL > /tmp/matrix/$name.json 2>&1 ) &
  while [ $(jobs -r | wc -l) -ge 5 ]; do sleep 1; done
done
wait
