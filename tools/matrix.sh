#!/bin/bash
# matrix.sh: every seeded mutation x every check, in scratch worktrees; results in /tmp/matrix/<name>.json
mkdir -p /tmp/matrix
ALL="C01 C02 C03 C04 C05 C06 C07 C08 C09 C10 C11 C12 C13 C14 C15 C16 C17 C18 C19 C20"
ls -d /verif/seeded/*/ | while read d; do [ -f $d/patch.diff ] && echo $d; done | \
  xargs -P 5 -I{} sh -c 'n=$(basename {}); python3 /verif/tools/evalmut_nodemo.py {} $n '"$ALL"' > /tmp/matrix/$n.json 2>&1'
