#!/bin/bash
# harmless.sh: every behaviour-preserving rewrite in /verif/harmless x every check (quick tier) in scratch worktrees:
# any non-zero exit is a FALSE ALARM of the machinery. Results in /tmp/harmless/<name>.json
mkdir -p /tmp/harmless
ALL="C01 C02 C03 C04 C05 C06 C07 C08 C09 C10 C11 C12 C13 C14 C15 C16 C17 C18 C19 C20"
ls -d /verif/harmless/*/ | xargs -P 5 -I{} sh -c 'n=$(basename {}); python3 /verif/tools/evalmut_nodemo.py {} $n '"$ALL"' > /tmp/harmless/$n.json 2>&1'
for f in /tmp/harmless/*.json; do python3 - $f <<'PY'
import json,sys
try:
    d=json.loads(open(sys.argv[1]).read().strip().splitlines()[-1])
except Exception:
    print(sys.argv[1],"unparsable"); sys.exit()
bad={c:rc for c,rc in d["checks"].items() if rc!=0}
print(d["name"], "applies=%s builds=%s" % (d.get("applies"), d.get("builds")), "FALSE ALARMS: %s %s" % (bad, d.get("why")) if bad else "quiet")
PY
done
