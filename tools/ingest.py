#!/usr/bin/env python3
"""ingest.py <pid> <letter> [checks...]: copies /tmp/mut2-<pid>/MUTATION/<letter> to seeded/<pid>-<letter>,
confirms it with evalmut.py and runs the given checks (default: the targeted one) against it."""
import json, os, shutil, subprocess, sys
pid, letter = sys.argv[1], sys.argv[2]
checks = sys.argv[3:] or [pid]
name = "%s-%s" % (pid, letter)
src = "/tmp/mut%s-%s/MUTATION/%s" % (os.environ.get("ROUND", "2"), pid, letter)
dst = "/verif/seeded/" + name
if os.path.exists(src) and not os.path.exists(dst):
    shutil.copytree(src, dst)
p = subprocess.run(["python3", "/verif/tools/evalmut.py", dst, name] + checks, stdout=subprocess.PIPE, text=True)
try:
    res = json.loads(p.stdout)
except Exception:
    print(p.stdout[-3000:]); sys.exit(2)
det = sorted(c for c, r in res["checks"].items() if r["exit"] != 0)
meta = {"breaks": [pid], "source": "independent sub-agent (round %s)" % os.environ.get("ROUND", "2") + " given only the property text and a scratch worktree",
        "needs": "see README.md (written by the sub-agent)",
        "confirmed": ("patch applies; full existing suite passes with the patch; demo fails with the patch and passes without it (tools/evalmut.py in a scratch worktree)"
                      if res.get("confirmed") else "NOT CONFIRMED: " + json.dumps(res["confirm"])[:600]),
        "ran": "python3 tools/evalmut.py <dir> %s %s" % (name, " ".join(checks)),
        "detected_by": det}
json.dump(meta, open(os.path.join(dst, "meta.json"), "w"), indent=1)
print(name, "confirmed=%s" % res.get("confirmed"), "detected_by=%s" % det)
for c, r in res["checks"].items():
    print("  ", c, r["exit"], (r.get("violation") or [""])[0][:150], json.dumps(r.get("failures", ""))[:300])
if not res.get("confirmed"):
    print(json.dumps(res["confirm"], indent=1)[:2500])
