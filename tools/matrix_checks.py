#!/usr/bin/env python3
"""matrix_checks.py <seeded name>: the checks recorded as detecting (or targeted by) a seeded change"""
import json, sys
m = json.load(open("/verif/seeded/%s/meta.json" % sys.argv[1]))
print(" ".join(sorted(c for c in set(m.get("breaks", []) + m.get("detected_by", [])) if c.startswith("C") and len(c) == 3)))
