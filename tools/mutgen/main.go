// mutgen: mechanical single-point mutants of Go source files (token-level edits located with go/ast).
// usage: mutgen <repo root> <out dir> <file>...      (files relative to the repo root)
// Writes <out dir>/<n>.json = {"file","line","kind","desc","start","end","new"}; the driver applies the edit
// to a scratch copy. Operators: negate an if/for condition, flip a comparison / boolean operator, delete an
// expression / assignment / inc-dec / defer / go statement, bump an integer literal, drop an else branch,
// replace a `continue`/`break`, `return` early with zero values is NOT generated (type information is not loaded).
package main

import (
	"encoding/json"
	"fmt"
	"go/ast"
	"go/parser"
	"go/token"
	"os"
	"path/filepath"
	"strings"
)

type mutant struct {
	File  string `json:"file"`
	Line  int    `json:"line"`
	Kind  string `json:"kind"`
	Desc  string `json:"desc"`
	Start int    `json:"start"`
	End   int    `json:"end"`
	New   string `json:"new"`
}

var flips = map[token.Token][]string{
	token.EQL: {"!="}, token.NEQ: {"=="}, token.LSS: {"<=", ">="}, token.LEQ: {"<"}, token.GTR: {">=", "<="}, token.GEQ: {">"},
	token.LAND: {"||"}, token.LOR: {"&&"}, token.ADD: {"-"}, token.SUB: {"+"},
}

func main() {
	root, out := os.Args[1], os.Args[2]
	os.MkdirAll(out, 0o777)
	n := 0
	emit := func(m mutant) {
		n++
		b, _ := json.Marshal(m)
		os.WriteFile(filepath.Join(out, fmt.Sprintf("%04d.json", n)), b, 0o666)
	}
	for _, rel := range os.Args[3:] {
		path := filepath.Join(root, rel)
		src, err := os.ReadFile(path)
		if err != nil {
			panic(err)
		}
		fset := token.NewFileSet()
		f, err := parser.ParseFile(fset, path, src, parser.ParseComments)
		if err != nil {
			panic(err)
		}
		off := func(p token.Pos) int { return fset.Position(p).Offset }
		line := func(p token.Pos) int { return fset.Position(p).Line }
		text := func(a, b token.Pos) string { return string(src[off(a):off(b)]) }
		ast.Inspect(f, func(nd ast.Node) bool {
			switch x := nd.(type) {
			case *ast.IfStmt:
				emit(mutant{rel, line(x.Cond.Pos()), "negate-if", "if !(" + text(x.Cond.Pos(), x.Cond.End()) + ")", off(x.Cond.Pos()), off(x.Cond.End()), "!(" + text(x.Cond.Pos(), x.Cond.End()) + ")"})
				if x.Else != nil {
					if blk, ok := x.Else.(*ast.BlockStmt); ok {
						emit(mutant{rel, line(blk.Pos()), "empty-else", "else branch emptied", off(blk.Lbrace) + 1, off(blk.Rbrace), ""})
					}
				}
			case *ast.ForStmt:
				if x.Cond != nil {
					emit(mutant{rel, line(x.Cond.Pos()), "negate-for", "for !(" + text(x.Cond.Pos(), x.Cond.End()) + ")", off(x.Cond.Pos()), off(x.Cond.End()), "!(" + text(x.Cond.Pos(), x.Cond.End()) + ")"})
				}
			case *ast.BinaryExpr:
				for _, alt := range flips[x.Op] {
					if x.Op == token.ADD || x.Op == token.SUB {
						// only arithmetic on non-string operands: skip if either side is a string literal / call producing strings (heuristic)
						if isStringy(x.X) || isStringy(x.Y) {
							continue
						}
					}
					emit(mutant{rel, line(x.OpPos), "flip-op", text(x.Pos(), x.End()) + "  :  " + x.Op.String() + " -> " + alt, off(x.OpPos), off(x.OpPos) + len(x.Op.String()), alt})
				}
			case *ast.BasicLit:
				if x.Kind == token.INT && len(x.Value) < 6 && !strings.HasPrefix(x.Value, "0o") && !strings.HasPrefix(x.Value, "0x") {
					var v int
					fmt.Sscanf(x.Value, "%d", &v)
					emit(mutant{rel, line(x.Pos()), "bump-int", fmt.Sprintf("%s -> %d", x.Value, v+1), off(x.Pos()), off(x.End()), fmt.Sprint(v + 1)})
					if v > 0 {
						emit(mutant{rel, line(x.Pos()), "bump-int", fmt.Sprintf("%s -> %d", x.Value, v-1), off(x.Pos()), off(x.End()), fmt.Sprint(v - 1)})
					}
				}
			case *ast.BlockStmt:
				for _, st := range x.List {
					switch s := st.(type) {
					case *ast.ExprStmt:
						if call, ok := s.X.(*ast.CallExpr); ok {
							name := text(call.Fun.Pos(), call.Fun.End())
							if strings.HasSuffix(name, ".Helper") {
								continue
							}
						}
						emit(mutant{rel, line(s.Pos()), "del-stmt", "delete: " + oneLine(text(s.Pos(), s.End())), off(s.Pos()), off(s.End()), ""})
					case *ast.AssignStmt:
						if s.Tok == token.ASSIGN || s.Tok == token.ADD_ASSIGN || s.Tok == token.SUB_ASSIGN {
							emit(mutant{rel, line(s.Pos()), "del-stmt", "delete: " + oneLine(text(s.Pos(), s.End())), off(s.Pos()), off(s.End()), ""})
						}
					case *ast.IncDecStmt:
						emit(mutant{rel, line(s.Pos()), "del-stmt", "delete: " + oneLine(text(s.Pos(), s.End())), off(s.Pos()), off(s.End()), ""})
					case *ast.DeferStmt:
						emit(mutant{rel, line(s.Pos()), "del-stmt", "delete: " + oneLine(text(s.Pos(), s.End())), off(s.Pos()), off(s.End()), ""})
					case *ast.BranchStmt:
						if s.Tok == token.CONTINUE {
							emit(mutant{rel, line(s.Pos()), "branch", "continue -> break", off(s.Pos()), off(s.End()), "break"})
						} else if s.Tok == token.BREAK && s.Label == nil {
							emit(mutant{rel, line(s.Pos()), "branch", "break -> continue", off(s.Pos()), off(s.End()), "continue"})
						}
					case *ast.ReturnStmt:
						// a bare `return` inside an if block: delete it (fall through)
						if len(s.Results) == 0 {
							emit(mutant{rel, line(s.Pos()), "del-return", "delete bare return", off(s.Pos()), off(s.End()), ""})
						}
					}
				}
			}
			return true
		})
	}
	fmt.Println(n, "mutants")
}

func isStringy(e ast.Expr) bool {
	switch x := e.(type) {
	case *ast.BasicLit:
		return x.Kind == token.STRING || x.Kind == token.CHAR
	case *ast.BinaryExpr:
		return isStringy(x.X) || isStringy(x.Y)
	case *ast.CallExpr:
		s := fmt.Sprint(x.Fun)
		return strings.Contains(s, "String") || strings.Contains(s, "Sprint") || strings.Contains(s, "string")
	case *ast.Ident:
		n := strings.ToLower(x.Name)
		return strings.Contains(n, "name") || strings.Contains(n, "str") || strings.Contains(n, "path") || strings.Contains(n, "symbol") || strings.Contains(n, "ext") || n == "s" || n == "subject"
	}
	return false
}

func oneLine(s string) string {
	s = strings.Join(strings.Fields(s), " ")
	if len(s) > 90 {
		s = s[:90] + "..."
	}
	return s
}
