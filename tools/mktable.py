#!/usr/bin/env python3
"""mktable.py [matrix dir]: folds the detection matrix (tools/matrix.sh) into seeded/*/meta.json and rewrites the table of
DESIGN.md section 11 between the matrix markers."""
import json, os, re, sys
mdir = sys.argv[1] if len(sys.argv) > 1 else "/tmp/matrix"
rows = []
for name in sorted(os.listdir("/verif/seeded")):
    mp = "/verif/seeded/%s/meta.json" % name
    if not os.path.exists(mp):
        continue
    meta = json.load(open(mp))
    rp = os.path.join(mdir, name + ".json")
    if os.path.exists(rp):
        try:
            res = json.loads(open(rp).read().strip().splitlines()[-1])
        except Exception:
            res = None
        if res and res.get("applies") and (os.environ.get("FORCE") == "1" or "strengthened" not in meta.get("note", "")):   # (entries updated by hand after a later strengthening are newer than this matrix)
            det = sorted(c for c, rc in res["checks"].items() if rc != 0)
            meta["detected_by"] = det
            meta["matrix"] = "tools/matrix.sh: patch applied in a scratch worktree of /repo HEAD, every check's quick tier run with VERIF_REPO pointing at it"
            json.dump(meta, open(mp, "w"), indent=1)
        if res and res.get("applies") is False:
            meta["applies_to_head"] = False
            json.dump(meta, open(mp, "w"), indent=1)
    tail = " (the patch no longer applies to the repaired tree: last evaluation kept)" if meta.get("applies_to_head") is False else ""
    rows.append("| %s | %s | %s%s |" % (name, ",".join(meta.get("breaks", [])), ", ".join(meta.get("detected_by", [])) or "none", tail))
table = "| change | breaks (as targeted) | detected by |\n|---|---|---|\n" + "\n".join(rows) + "\n"
p = "/verif/DESIGN.md"
s = open(p).read()
if "<!-- matrix:begin -->" in s:
    s = re.sub(r"<!-- matrix:begin -->.*?<!-- matrix:end -->", "<!-- matrix:begin -->\n" + table + "<!-- matrix:end -->", s, flags=re.S)
else:
    s = re.sub(r"\| change \| breaks \(as targeted\) \| detected by \|\n\|---\|---\|---\|\n(?:\|.*\|\n)+", "<!-- matrix:begin -->\n" + table + "<!-- matrix:end -->\n", s, count=1)
open(p, "w").write(s)
print(table)
