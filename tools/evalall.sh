#!/bin/sh
# evalall.sh <checks...> : evaluates every /tmp/mut-*/MUTATION/{A,B} against the given checks (parallel)
mkdir -p /tmp/evres
for d in /tmp/mut-*/MUTATION/A /tmp/mut-*/MUTATION/B; do
  [ -f $d/patch.diff ] || continue
  id=$(echo $d | sed 's|/tmp/mut-\(C[0-9]*\)/MUTATION/\(.\)|\1-\2|')
  ( python3 /verif/tools/evalmut.py $d $id "$@" > /tmp/evres/$id.json 2>&1 ) &
  # limit parallelism
  while [ $(jobs -r | wc -l) -ge 4 ]; do sleep 1; done
done
wait
