#!/bin/bash
# robust.sh: every seeded change x the check that is meant to catch it (targeted property if it detects at seed 1, else the
# first detecting check) under seeds 2,3,4: is the detection seed-dependent? results in /tmp/robust/<name>.<seed>.json
mkdir -p /tmp/robust
python3 - <<'PY' > /tmp/robust/jobs.txt
import json, os
for n in sorted(os.listdir("/verif/seeded")):
    mp = "/verif/seeded/%s/meta.json" % n
    if not os.path.exists(mp): continue
    m = json.load(open(mp))
    det = m.get("detected_by", [])
    if not det: continue
    tgt = m.get("breaks", [""])[0]
    chk = tgt if tgt in det else det[0]
    for seed in (2, 3, 4):
        print(n, chk, seed)
PY
cat /tmp/robust/jobs.txt | xargs -P 5 -L 1 sh -c 'VERIF_SEED=$2 python3 /verif/tools/evalmut_nodemo.py /verif/seeded/$0 $0-s$2 $1 > /tmp/robust/$0.$2.json 2>&1'
grep -L '": 1' /tmp/robust/*.json | grep -v jobs
