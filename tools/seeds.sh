#!/bin/bash
# seeds.sh [tier] [seeds...]: every check under several seeds on the unchanged tree (false-alarm hunt).
cd /verif
tier=${1:-quick}; shift
for seed in ${@:-2 3 4 5 6 7}; do
  for p in C01 C02 C03 C04 C05 C06 C07 C08 C09 C10 C11 C12 C13 C14 C15 C16 C17 C18 C19 C20; do
    out=$(VERIF_SEED=$seed VERIF_OUTDIR=/var/tmp/verif-seeds-out ./check $p --tier $tier 2>&1 | grep -v "^KNOWN" | tail -2 | tr '\n' ' ')
    echo "seed=$seed $out"
  done
done
