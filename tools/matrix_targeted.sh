#!/bin/bash
# matrix_targeted.sh: every seeded change x the checks that are recorded as detecting it (meta.json: breaks + detected_by), in scratch
# worktrees; results in /tmp/matrix/<name>.json (rows already present are kept). A full matrix (tools/matrix.sh: every change x
# every check) takes several hours with 285 changes; this confirms the recorded detections after a change of the machinery.
mkdir -p /tmp/matrix
ls -d /verif/seeded/*/ | while read d; do n=$(basename $d); [ -f $d/patch.diff ] && [ ! -s /tmp/matrix/$n.json ] && echo $n; done | \
  xargs -P 6 -I{} sh -c 'cs=$(python3 /verif/tools/matrix_checks.py {}); python3 /verif/tools/evalmut_nodemo.py /verif/seeded/{} {} $cs > /tmp/matrix/{}.json 2>&1'
