#!/usr/bin/env python3
"""mutrun.py <mutants dir> <results dir> [workers]: mechanical mutation testing of the machinery.
For every mutant written by tools/mutgen: apply the edit to a scratch COPY of /repo's working tree (never /repo itself),
stage 1: `go build ./...` and the full existing suite must pass (otherwise the mutant is not a "realistic change that still
compiles and passes the existing tests" and is dropped); stage 2: the checks, most relevant first, until one reports a
violation (killed) or all 20 pass (survivor). One JSON line per mutant in <results dir>/<id>.json."""
import json, os, shutil, subprocess, sys, threading, queue, time

ENV = dict(os.environ, GOFLAGS="-mod=mod", GOPROXY="off", GOSUMDB="off", GOTOOLCHAIN="local", VERIF_SKIP_COQ="1")
ALL = ["C%02d" % i for i in range(1, 21)]
REL = {
    "snaps/clean.go": ["C09", "C10", "C07", "C08", "C20"],
    "snaps/diff.go": ["C13", "C02", "C01"],
    "internal/difflib/difflib.go": ["C13", "C02"],
    "internal/colors/colors.go": ["C13", "C20", "C02"],
    "snaps/matchJSON.go": ["C14", "C17", "C15", "C16", "C03", "C12", "C20", "C01"],
    "snaps/matchStandaloneJSON.go": ["C19", "C14", "C12", "C17", "C20", "C05"],
    "snaps/matchStandaloneSnapshot.go": ["C19", "C02", "C05", "C12", "C20"],
    "snaps/matchSnapshot.go": ["C01", "C02", "C03", "C04", "C05", "C20", "C06"],
    "snaps/matchYAML.go": ["C18", "C17", "C03", "C01", "C02", "C20", "C15"],
    "snaps/skip.go": ["C08", "C20", "C07"],
    "snaps/snapshot.go": ["C01", "C04", "C03", "C06", "C11", "C12", "C19", "C02", "C18"],
    "snaps/utils.go": ["C05", "C11", "C20", "C10"],
    "match/any.go": ["C15", "C16", "C17"],
    "match/custom.go": ["C15", "C17", "C16"],
    "match/type.go": ["C17", "C15", "C16"],
    "match/utils.go": ["C15", "C16", "C17"],
}


def sh(cmd, cwd=None, timeout=1200, env=None):
    try:
        p = subprocess.run(cmd, cwd=cwd, shell=True, env=env or ENV, stdout=subprocess.PIPE, stderr=subprocess.STDOUT, text=True, errors="replace", timeout=timeout)
        return p.returncode, p.stdout
    except subprocess.TimeoutExpired:
        return 124, "timeout"


def worker(wid, q, mdir, rdir):
    work = "/var/tmp/mutwork/%d" % wid
    shutil.rmtree(work, ignore_errors=True)
    os.makedirs(os.path.dirname(work), exist_ok=True)
    sh("rsync -a --exclude .git /repo/ %s/" % work)
    outdir = "/var/tmp/mutwork/out%d" % wid
    while True:
        try:
            name = q.get_nowait()
        except queue.Empty:
            return
        rp = os.path.join(rdir, name)
        if os.path.exists(rp):
            continue
        m = json.load(open(os.path.join(mdir, name)))
        path = os.path.join(work, m["file"])
        orig = open(os.path.join("/repo", m["file"]), "rb").read()
        mutated = orig[:m["start"]] + m["new"].encode() + orig[m["end"]:]
        res = dict(m, id=name[:-5])
        try:
            open(path, "wb").write(mutated)
            rc, out = sh("go build ./... ", cwd=work, timeout=300)
            if rc != 0:
                res["status"] = "nobuild"
            else:
                rc, out = sh("go test -vet=off -count=1 ./...", cwd=work, timeout=600)
                if rc != 0:
                    res["status"] = "suite-kills"
                else:
                    order = REL.get(m["file"], []) + [c for c in ALL if c not in REL.get(m["file"], [])]
                    res["status"] = "survived"
                    res["ran"] = []
                    shutil.rmtree(outdir, ignore_errors=True)
                    env = dict(ENV, VERIF_REPO=work, VERIF_OUTDIR=outdir, VERIF_BUILD_TAG="-mut%d" % wid)
                    for c in order:
                        rc, out = sh("cd /verif && ./check %s" % c, env=env, timeout=1500)
                        res["ran"].append(c)
                        if rc != 0:
                            res["status"] = "killed"
                            res["killed_by"] = c
                            v = [l for l in out.splitlines() if l.startswith("VIOLATION")]
                            res["violation"] = v[:1]
                            break
        finally:
            open(path, "wb").write(orig)
        json.dump(res, open(rp, "w"))
    # (scratch copies are removed by the caller)


def main():
    mdir, rdir = sys.argv[1], sys.argv[2]
    nw = int(sys.argv[3]) if len(sys.argv) > 3 else 6
    os.makedirs(rdir, exist_ok=True)
    q = queue.Queue()
    for n in sorted(os.listdir(mdir)):
        if n.endswith(".json"):
            q.put(n)
    ts = [threading.Thread(target=worker, args=(i, q, mdir, rdir)) for i in range(nw)]
    for t in ts:
        t.start()
    for t in ts:
        t.join()
    shutil.rmtree("/var/tmp/mutwork", ignore_errors=True)
    sh("rm -rf /verif/build/go/*-mut*")
    # summary
    stat = {}
    surv = []
    for n in sorted(os.listdir(rdir)):
        r = json.load(open(os.path.join(rdir, n)))
        stat[r["status"]] = stat.get(r["status"], 0) + 1
        if r["status"] == "survived":
            surv.append("%s %s:%d %s %s" % (r["id"], r["file"], r["line"], r["kind"], r["desc"]))
    print(json.dumps(stat))
    print("\n".join(surv))


if __name__ == "__main__":
    main()
