#!/usr/bin/env python3
"""evalmut_nodemo.py <dir> <name> <checks...>: applies <dir>/patch.diff in a scratch worktree of /repo HEAD and runs the checks
(the mutation was confirmed earlier with tools/evalmut.py; this only fills the detection matrix)."""
import json, os, shutil, subprocess, sys, tempfile
ENV = dict(os.environ, GOFLAGS="-mod=mod", GOPROXY="off", GOSUMDB="off", GOTOOLCHAIN="local", VERIF_SKIP_COQ="1")
def sh(cmd, cwd=None, timeout=3000):
    p = subprocess.run(cmd, cwd=cwd, shell=True, env=ENV, stdout=subprocess.PIPE, stderr=subprocess.STDOUT, text=True, timeout=timeout)
    return p.returncode, p.stdout
mdir, name, checks = os.path.abspath(sys.argv[1]), sys.argv[2], sys.argv[3:]
res = {"name": name, "checks": {}}
wt = tempfile.mkdtemp(prefix="mx-", dir="/tmp"); os.rmdir(wt)
sh("git -C /repo worktree add -q --detach %s HEAD" % wt)
out_dir = tempfile.mkdtemp(prefix="mxo-", dir="/tmp")
try:
    rc, out = sh("git apply %s" % os.path.join(mdir, "patch.diff"), cwd=wt)
    res["applies"] = rc == 0
    if rc == 0:
        rc, out = sh("go build ./...", cwd=wt)
        res["builds"] = rc == 0
        for c in checks:
            rc, out = sh("cd /verif && VERIF_REPO=%s VERIF_OUTDIR=%s VERIF_BUILD_TAG=-mx%s ./check %s" % (wt, out_dir, name, c))
            v = [l for l in out.splitlines() if l.startswith("VIOLATION")]
            res["checks"][c] = rc
            if v:
                res.setdefault("claim", {})[c] = "tie" if v[0].rstrip().endswith("no-failing-input-found") else "CONCRETE"
            if v and "replay=" in v[0]:
                try:
                    rp = json.load(open(v[0].split("replay=")[1].split()[0]))
                    res.setdefault("why", {})[c] = [str(x)[:220] for x in (rp.get("failures") or rp.get("mismatches") or rp.get("broken") or rp.get("dead_levers") or [rp.get("error", "")])[:2]]
                except Exception:
                    pass
finally:
    sh("git -C /repo worktree remove --force %s" % wt)
    shutil.rmtree(out_dir, ignore_errors=True)
    sh("rm -rf /verif/build/go/*-mx%s" % name)
print(json.dumps(res))
