#!/usr/bin/env python3
"""covmerge.py <dir>: merges go coverprofiles and lists uncovered blocks per file."""
import os, re, sys, collections
blocks = collections.defaultdict(int)
stm = {}
for f in os.listdir(sys.argv[1]):
    for l in open(os.path.join(sys.argv[1], f)):
        m = re.match(r"(\S+):(\d+)\.(\d+),(\d+)\.(\d+) (\d+) (\d+)$", l.strip())
        if m:
            k = (m.group(1), int(m.group(2)), int(m.group(3)), int(m.group(4)), int(m.group(5)))
            blocks[k] += int(m.group(7))
            stm[k] = int(m.group(6))
per = collections.defaultdict(lambda: [0, 0])
unc = collections.defaultdict(list)
for k, n in blocks.items():
    per[k[0]][1] += stm[k]
    if n:
        per[k[0]][0] += stm[k]
    else:
        unc[k[0]].append(k[1:])
tot = [0, 0]
for f in sorted(per):
    c, t = per[f]
    tot[0] += c; tot[1] += t
    print("%-70s %4d/%4d %5.1f%%" % (f, c, t, 100.0 * c / max(t, 1)))
    for b in sorted(unc[f]):
        print("      uncovered %d.%d-%d.%d" % b)
print("TOTAL %d/%d %.1f%%" % (tot[0], tot[1], 100.0 * tot[0] / max(tot[1], 1)))
