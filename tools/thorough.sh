#!/bin/bash
# thorough.sh: every check's thorough tier on the unchanged tree (timing + false-alarm hunt); evidence goes to a scratch dir
cd /verif
for p in C01 C02 C03 C04 C05 C06 C07 C08 C09 C10 C11 C12 C13 C14 C15 C16 C17 C18 C19 C20; do
  /usr/bin/time -f "$p %es" env VERIF_OUTDIR=/var/tmp/verif-thorough-out ./check $p --tier thorough 2>&1 | grep -v "^KNOWN" | tail -2 | tr '\n' ' '; echo
done
