#!/usr/bin/env python3
"""evalmut.py <mutation dir> <name> <check ids...>
Confirms a candidate mutation (suite passes with patch, demo fails with / passes without) in a scratch
worktree, then applies it to /repo, runs the given checks, and reverts. Prints a JSON summary."""
import json, os, re, shutil, subprocess, sys, tempfile

ENV = dict(os.environ, GOFLAGS="-mod=mod", GOPROXY="off", GOSUMDB="off", GOTOOLCHAIN="local")


def sh(cmd, cwd=None, timeout=1800):
    p = subprocess.run(cmd, cwd=cwd, shell=True, env=ENV, stdout=subprocess.PIPE, stderr=subprocess.STDOUT, text=True, timeout=timeout)
    return p.returncode, p.stdout


def main():
    mdir, name = sys.argv[1], sys.argv[2]
    checks = sys.argv[3:]
    patch = os.path.join(mdir, "patch.diff")
    res = {"name": name, "confirm": {}, "checks": {}}
    wt = tempfile.mkdtemp(prefix="ev-", dir="/tmp")
    os.rmdir(wt)
    sh("git -C /repo worktree add -q --detach %s HEAD" % wt)
    try:
        rc, out = sh("git apply %s" % patch, cwd=wt)
        res["confirm"]["applies"] = rc == 0
        rc, out = sh("go build ./... && go test -vet=off -count=1 ./...", cwd=wt)
        res["confirm"]["suite_passes_with_patch"] = rc == 0
        if rc != 0:
            res["confirm"]["suite_output"] = out[-1500:]
        # install the demo
        demos = []
        ddir = os.path.join(mdir, "demo")
        standalone = os.path.exists(os.path.join(ddir, "go.mod")) and "replace" in open(os.path.join(ddir, "go.mod")).read()
        if standalone:
            dst = os.path.join(wt, "_demo")
            shutil.copytree(ddir, dst)
            gm = open(os.path.join(dst, "go.mod")).read()
            gm = re.sub(r"=> .*", "=> " + wt, gm)
            open(os.path.join(dst, "go.mod"), "w").write(gm)
            shutil.copy(os.path.join(wt, "go.sum"), os.path.join(dst, "go.sum"))
            democmd = "cd %s && (go test -vet=off -count=1 ./... 2>&1 || exit 1; ls *.go | grep -qv _test.go && go run . || true)" % dst
        else:
            names = []
            tags = []
            for f in os.listdir(ddir):
                if f.endswith(".go"):
                    src = open(os.path.join(ddir, f)).read()
                    names += re.findall(r"^func (Test\w+)\(", src, re.M)
                    tags += re.findall(r"^//go:build (\w+)\s*$", src, re.M)
                    m = re.search(r"^package\s+(\w+)", src, re.M)
                    pkg = m.group(1) if m else "snaps"
                    d = {"snaps": "snaps", "snaps_test": "snaps", "match": "match", "match_test": "match",
                         "difflib": "internal/difflib", "examples": "examples", "colors": "internal/colors"}.get(pkg, "snaps")
                    shutil.copy(os.path.join(ddir, f), os.path.join(wt, d, f))
                    demos.append(d)
            pk = " ".join("./" + d for d in sorted(set(demos)))
            runarg = "" if os.environ.get("EVALMUT_NORUN") else "-run '^(%s)$'" % "|".join(names)   # some demos need an empty -run
            democmd = "go test -vet=off -count=1 %s %s %s" % (("-tags " + ",".join(tags)) if tags else "", runarg, pk)
        rc, out = sh(democmd, cwd=wt)
        res["confirm"]["demo_fails_with_patch"] = rc != 0
        sh("git apply -R %s" % patch, cwd=wt)
        rc, out = sh(democmd, cwd=wt)
        res["confirm"]["demo_passes_without_patch"] = rc == 0
        if rc != 0:
            res["confirm"]["demo_output_without"] = out[-1500:]
    finally:
        sh("git -C /repo worktree remove --force %s" % wt)
    ok = all(v for k, v in res["confirm"].items() if isinstance(v, bool))
    res["confirmed"] = ok
    if ok and checks:
        wt2 = tempfile.mkdtemp(prefix="evr-", dir="/tmp")
        os.rmdir(wt2)
        sh("git -C /repo worktree add -q --detach %s HEAD" % wt2)
        out_dir = tempfile.mkdtemp(prefix="evo-", dir="/tmp")
        try:
            sh("git apply %s" % patch, cwd=wt2)
            for c in checks:
                rc, out = sh("cd /verif && VERIF_REPO=%s VERIF_OUTDIR=%s VERIF_BUILD_TAG=-%s ./check %s" % (wt2, out_dir, name, c), timeout=3000)
                v = [l for l in out.splitlines() if l.startswith("VIOLATION")]
                res["checks"][c] = {"exit": rc, "violation": v[:1]}
                if v and "replay=" in v[0]:
                    try:
                        rp = json.load(open(v[0].split("replay=")[1].split()[0]))
                        res["checks"][c]["failures"] = (rp.get("failures") or rp.get("mismatches") or [rp.get("error", "")[:300]])[:2]
                    except Exception:
                        pass
        finally:
            sh("git -C /repo worktree remove --force %s" % wt2)
            shutil.rmtree(out_dir, ignore_errors=True)
            sh("rm -rf /verif/build/go/*-%s" % name)
    print(json.dumps(res, indent=1))


if __name__ == "__main__":
    main()
