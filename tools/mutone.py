#!/usr/bin/env python3
"""mutone.py <mutant id> <check>...: applies one mechanical mutant (tools/mutgen) to a scratch copy of /repo and runs the checks."""
import json, os, shutil, subprocess, sys, tempfile
ENV = dict(os.environ, GOFLAGS="-mod=mod", GOPROXY="off", GOSUMDB="off", GOTOOLCHAIN="local", VERIF_SKIP_COQ="1")
mid, checks = sys.argv[1], sys.argv[2:]
m = json.load(open("/var/tmp/mutants/%s.json" % mid))
work = tempfile.mkdtemp(prefix="mutone-", dir="/var/tmp")
out = tempfile.mkdtemp(prefix="mutone-out-", dir="/var/tmp")
try:
    subprocess.run("rsync -a --exclude .git /repo/ %s/" % work, shell=True, check=True)
    orig = open(os.path.join("/repo", m["file"]), "rb").read()
    open(os.path.join(work, m["file"]), "wb").write(orig[:m["start"]] + m["new"].encode() + orig[m["end"]:])
    res = {}
    for c in checks:
        p = subprocess.run("cd /verif && ./check %s" % c, shell=True, env=dict(ENV, VERIF_REPO=work, VERIF_OUTDIR=out, VERIF_BUILD_TAG="-one" + mid),
                           stdout=subprocess.PIPE, stderr=subprocess.STDOUT, text=True)
        res[c] = p.returncode
    print(mid, "%s:%d" % (m["file"], m["line"]), m["desc"][:80], res)
finally:
    shutil.rmtree(work, ignore_errors=True); shutil.rmtree(out, ignore_errors=True)
    subprocess.run("rm -rf /verif/build/go/*-one%s" % mid, shell=True)
