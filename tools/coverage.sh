#!/bin/bash
# coverage.sh: statement coverage of the library under the correspondence runs of all checks (quick tier).
# `go tool cover` does not follow -overlay for injected non-test files, so the measurement uses a scratch
# COPY of /repo's working tree with the harness files physically present (VERIF_REPO points at it); separate
# -cover binaries (VERIF_BUILD_TAG=-cover). C06's yield-instrumented build is skipped (its sources are rewritten).
# Prints the blocks of snaps/, match/, internal/ that no correspondence run reached. A measurement, not a check.
cd /verif
SRC=/var/tmp/verif-cover-src
rm -rf build/cover $SRC /var/tmp/verif-cover-out; mkdir -p build/cover /var/tmp/verif-cover-out
rsync -a --exclude .git /repo/ $SRC/
python3 - <<'PY'
import sys, shutil, os
sys.path.insert(0, "/verif/lib")
import common
for f, (pkg, inj) in common.OVERLAYS.items():
    shutil.copy(os.path.join("/verif/harness/whitebox", f), os.path.join("/var/tmp/verif-cover-src", pkg, inj))
PY
export VERIF_COVER=1 VERIF_BUILD_TAG=-cover VERIF_OUTDIR=/var/tmp/verif-cover-out VERIF_REPO=$SRC
for p in C01 C02 C03 C04 C05 C07 C08 C09 C10 C11 C12 C13 C14 C15 C16 C17 C18 C19 C20; do
  ./check $p --tier ${1:-quick} | tail -1
done
python3 tools/covmerge.py build/cover
rm -rf /var/tmp/verif-cover-out $SRC build/go/*-cover
