#!/usr/bin/env python3
"""mkwitness.py <PID> <finding id> : finds a generated case whose oracle failure matches the finding's
signature, shrinks it (keeping a signature-matching failure) and stores it as known/<finding>-<PID>.json"""
import sys, os, json, zlib, tempfile, importlib
sys.path.insert(0, "/verif/lib"); sys.path.insert(0, "/verif/lib/props")
import common
from common import Rng, build_go, build_driver, load_known
from runner import evaluate, shrink, strip

pid, fid = sys.argv[1], sys.argv[2]
prop = importlib.import_module(pid).PROP
bins = build_go(pid + "-wit"); driver = build_driver()
wd = tempfile.mkdtemp()
finding = {"id": fid}
for seed in range(1, 6):
    cases = prop.gen(Rng(seed * 1000003 + zlib.crc32(pid.encode())), "quick")
    for i, c in enumerate(cases):
        c["id"] = i + 1; c.setdefault("meta", {})
    ev = evaluate(prop, cases, bins, driver, wd, want_model=False)
    hit = None
    for c in cases:
        r = ev[c["id"]]
        if any(prop.known_signature(finding, c, r["ops"], r["ri"], f) for f in r["fi"]):
            hit = c; break
    if hit:
        def pb(cands):
            e = evaluate(prop, cands, bins, driver, wd, want_model=False)
            return [any(prop.known_signature(finding, c, e[c["id"]]["ops"], e[c["id"]]["ri"], f) for f in e[c["id"]]["fi"]) for c in cands]
        small = shrink(prop, strip(hit), pb)
        small.setdefault("meta", {})
        out = "/verif/known/%s-%s.json" % (fid, pid)
        json.dump({"case": small, "note": "%s witness for %s (generated, shrunk)" % (fid, pid)}, open(out, "w"), indent=1)
        print("wrote", out, len(small["ops"]), "ops")
        break
else:
    print("no witness found")
