//go:build verif

package snaps

// Canaries: does this harness still CONTROL the library?
//
// The white-box harness plays several processes inside one: it sets the package variables the library derives from its
// environment (vSetEnv), resets the registries (vResetProcess), sets the test flags Clean reads, swaps os.Stdout to capture
// the summary, and deletes sandboxes between cases. A library that (legitimately, for a real process) computes one of these
// once and remembers it makes those levers dead: every transcript then describes a process that cannot exist, and an oracle
// failure on it proves nothing about the library. The canaries below exercise each lever once, at the start of the harness
// process, on the simplest behaviour it controls. A dead lever is reported in the transcript (`canary ...=0`); the orchestrator
// then reports oracle failures as a broken tie (no failing input is claimed), not as violations with a replay.

import (
	"flag"
	"fmt"
	"os"
	"path/filepath"
	"strings"
	"testing"
)

func vCanaryCall(dir, test, val string) (*vT, string) {
	cfg := WithConfig(Dir(dir))
	t := &vT{name: test}
	cfg.MatchSnapshot(t, val)
	for _, f := range t.cleanups {
		f()
	}
	all := ""
	ents, _ := os.ReadDir(dir)
	for _, e := range ents {
		b, _ := os.ReadFile(filepath.Join(dir, e.Name()))
		all += string(b)
	}
	return t, all
}

func vCanaries() string {
	root, err := os.MkdirTemp("", "vcanary")
	if err != nil {
		return "canary setup=0"
	}
	defer os.RemoveAll(root)
	root, _ = filepath.EvalSymlinks(root)
	res := map[string]bool{}

	// mode: the update / CI switches
	d := filepath.Join(root, "mode")
	vResetProcess(d)
	vSetEnv(false, "unset", false)
	_, c0 := vCanaryCall(d, "TestCanary", "value-one")
	vResetProcess(d)
	vSetEnv(false, "true", false)
	_, c1 := vCanaryCall(d, "TestCanary", "value-two")
	vResetProcess(d)
	vSetEnv(true, "true", false)
	t2, c2 := vCanaryCall(d, "TestCanary", "value-three")
	vResetProcess(d)
	vSetEnv(false, "unset", false)
	t3, c3 := vCanaryCall(d, "TestCanary", "value-four")
	res["mode"] = strings.Contains(c0, "value-one") && strings.Contains(c1, "value-two") && !strings.Contains(c1, "value-one") &&
		c2 == c1 && len(t2.errs) == 1 && c3 == c1 && len(t3.errs) == 1

	// defaults: the package-level functions follow the package defaults this harness installs (vResetProcess)
	d = filepath.Join(root, "defaults")
	vResetProcess(d)
	vSetEnv(false, "unset", false)
	td := &vT{name: "TestCanaryDefault"}
	MatchSnapshot(td, "through the package-level function")
	MatchStandaloneSnapshot(td, "standalone through the package-level function")
	for _, f := range td.cleanups {
		f()
	}
	ents, _ := os.ReadDir(d)
	nsnap := 0
	for _, e := range ents {
		if strings.Contains(e.Name(), ".snap") {
			nsnap++
		}
	}
	res["defaults"] = len(td.errs) == 0 && nsnap == 2

	// clean + stdout + flags: the deletion switch, the captured summary, the -count flag
	d = filepath.Join(root, "clean")
	os.MkdirAll(d, 0o755)
	snap := filepath.Join(d, "zz_verif_canary_test.snap")
	file := "\n[TestCanary - 1]\nv\n---\n\n[TestCanary - 2]\nv\n---\n\n[TestStale - 1]\nold\n---\n"
	runClean := func(upd string, count int) (string, string) {
		os.WriteFile(snap, []byte(file), 0o644)
		vResetProcess(d)
		vSetEnv(false, "unset", false)
		// two calls of TestCanary in this process
		cfg := WithConfig(Dir(d), Filename("zz_verif_canary_test"))
		t := &vT{name: "TestCanary"}
		cfg.MatchSnapshot(t, "v")
		cfg.MatchSnapshot(t, "v")
		vSetEnv(false, upd, false)
		flag.Set("test.run", "")
		flag.Set("test.count", fmt.Sprint(count))
		out := vCaptureStdout(func() { Clean(new(testing.M)) })
		flag.Set("test.count", "1")
		b, _ := os.ReadFile(snap)
		return out, string(b)
	}
	outR, fileR := runClean("unset", 1)
	outC, fileC := runClean("clean", 1)
	_, file2 := runClean("clean", 2) // two executions of one call each: ordinal 2 is stale
	_, file1 := runClean("clean", 1)
	res["stdout"] = strings.Contains(outR, "TestStale - 1") && strings.Contains(outC, "TestStale - 1")
	res["clean"] = fileR == file && !strings.Contains(fileC, "TestStale") && strings.Contains(fileC, "[TestCanary - 2]")
	res["flags"] = !strings.Contains(file2, "[TestCanary - 2]") && strings.Contains(file1, "[TestCanary - 2]")

	// fresh: a sandbox directory that was deleted is created again
	d = filepath.Join(root, "fresh")
	vResetProcess(d)
	vSetEnv(false, "unset", false)
	vCanaryCall(d, "TestCanary", "first")
	os.RemoveAll(d)
	vResetProcess(d)
	tf, cf := vCanaryCall(d, "TestCanary", "second")
	res["fresh"] = len(tf.errs) == 0 && strings.Contains(cf, "second")

	vResetProcess(root)
	vSetEnv(false, "unset", false)
	parts := []string{}
	for _, k := range []string{"mode", "defaults", "clean", "stdout", "flags", "fresh"} {
		parts = append(parts, k+"="+vb(res[k]))
	}
	return "canary " + strings.Join(parts, " ")
}
