//go:build verif

package snaps

// extension point for ops added by other harness files
var vExtraOps = map[string]func(r *vRunner, o vOp){}

func (r *vRunner) extraOp(o vOp) bool {
	f, ok := vExtraOps[o.Op]
	if !ok {
		return false
	}
	f(r, o)
	return true
}

//go:noinline
func vHelperUtilFile(f func()) { f() }

// the same leaf as a REAL call (used once, to calibrate the probe)
//
//go:noinline
func vLeafUtilReal(c *Config, t *vT, standalone bool) {
	if standalone {
		c.MatchStandaloneSnapshot(t, "v")
	} else {
		c.MatchSnapshot(t, "v")
	}
}

//go:noinline
func vLeafUtil(c *Config, name string, standalone bool) (string, string, []VFrame) {
	return VProbeExported(c, name, standalone)
}
