//go:build verif

package snaps

// extension point for ops added by other harness files
var vExtraOps = map[string]func(r *vRunner, o vOp){}

func (r *vRunner) extraOp(o vOp) bool {
	f, ok := vExtraOps[o.Op]
	if !ok {
		return false
	}
	f(r, o)
	return true
}

//go:noinline
func vHelperUtilFile(f func()) { f() }

// the same leaf as a REAL call (used once, to calibrate the probe)
//
//go:noinline
func vLeafUtilReal(c *Config, t *vT, standalone bool) {
	if standalone {
		c.MatchStandaloneSnapshot(t, "v")
	} else {
		c.MatchSnapshot(t, "v")
	}
}

// the SAME non-test helper call site (VLeafNonTest) reached from this test file instead of the c11 one: where a snapshot lives
// depends on the test file on the stack, not on which test file went through the helper first
//
//go:noinline
func vLeafNonTestViaUtil(c *Config, name string, standalone bool) (string, string, []VFrame) {
	return VLeafNonTest(c, name, standalone)
}

// a REAL MatchSnapshot call written in THIS test file (op match ... via=util): a Config shared by two test files stores each
// file's snapshots under that file's name
//
//go:noinline
func vUtilMatchSnapshot(c *Config, t *vT, vals ...any) {
	if c == nil {
		MatchSnapshot(t, vals...)
	} else {
		c.MatchSnapshot(t, vals...)
	}
}

//go:noinline
func vLeafUtil(c *Config, name string, standalone bool) (string, string, []VFrame) {
	return VProbeExported(c, name, standalone)
}
