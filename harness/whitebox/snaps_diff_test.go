//go:build verif

package snaps

// Harness ops for the line-diff engine and the failure report (C13).
//
//	op "opcodes": Values[0], Values[1] = the two texts (hex). Both are split with
//	    splitNewlines and handed to difflib.NewMatcher.
//	    echo:   op opcodes a=<hex> b=<hex>
//	    result: opcodes <idx> na=<len(aLines)> nb=<len(bLines)> all=<groups> groups=<groups>
//	    groups = GetGroupedOpCodes(3); all = GetGroupedOpCodes(na+nb+1), i.e. with a context
//	    so large that nothing is trimmed or split: one group holding every opcode of
//	    getOpCodes(), or no group at all when the script has no change.
//	    <groups> = groups separated by "/", opcodes inside a group by ",", "~" = no group;
//	    an opcode is <tag>:<i1>:<i2>:<j1>:<j2> with tag e|i|d|r.
//	    A fresh matcher is used for each call because GetGroupedOpCodes overwrites
//	    codes[0] / codes[len-1] of the cached m.opCodes slice in place.
//	op "diff": Values[0] = expected, Values[1] = received, Path = name (hex), Count = line,
//	    Colour=false => colors.NOCOLOR = true (restored afterwards).
//	    echo:   op diff a=<hex> b=<hex> name=<hex> line=<n> colour=<0|1>
//	    result: diff <idx> empty=<0|1> report=<hex>

import (
	"fmt"
	"strings"

	"github.com/gkampitakis/go-snaps/internal/colors"
	"github.com/gkampitakis/go-snaps/internal/difflib"
)

func vTagLetter(t int8) string {
	switch t {
	case difflib.OpEqual:
		return "e"
	case difflib.OpInsert:
		return "i"
	case difflib.OpDelete:
		return "d"
	case difflib.OpReplace:
		return "r"
	}
	return "?"
}

func vGroupsString(groups [][]difflib.OpCode) string {
	if len(groups) == 0 {
		return "~"
	}
	gs := make([]string, 0, len(groups))
	for _, g := range groups {
		cs := make([]string, 0, len(g))
		for _, c := range g {
			cs = append(cs, fmt.Sprintf("%s:%d:%d:%d:%d", vTagLetter(c.Tag), c.I1, c.I2, c.J1, c.J2))
		}
		gs = append(gs, strings.Join(cs, ","))
	}
	return strings.Join(gs, "/")
}

func vValue(o vOp, i int) string {
	if i < len(o.Values) {
		return string(vunhex(o.Values[i]))
	}
	return ""
}

func init() {
	vExtraOps["opcodes"] = func(r *vRunner, o vOp) {
		a, b := vValue(o, 0), vValue(o, 1)
		aLines := splitNewlines(a)
		bLines := splitNewlines(b)
		big := len(aLines) + len(bLines) + 1
		all := difflib.NewMatcher(splitNewlines(a), splitNewlines(b)).GetGroupedOpCodes(big)
		groups := difflib.NewMatcher(aLines, bLines).GetGroupedOpCodes(context)
		// the script the library chose (iall) and its hunks (igroups) are handed to the model, which CHECKS them (a valid
		// edit script? the hunks of that script?) instead of demanding its own matcher's choice
		fmt.Fprintf(r.w, "op opcodes a=%s b=%s ctx=%d iall=%s igroups=%s\n", vhex([]byte(a)), vhex([]byte(b)), context, vGroupsString(all), vGroupsString(groups))
		fmt.Fprintf(r.w, "opcodes %d na=%d nb=%d valid=1 hunks=1 all=%s groups=%s\n",
			r.idx, len(aLines), len(bLines), vGroupsString(all), vGroupsString(groups))
	}

	vExtraOps["diff"] = func(r *vRunner, o vOp) {
		a, b := vValue(o, 0), vValue(o, 1)
		name := string(vunhex(o.Path))
		aL, bL := splitNewlines(a), splitNewlines(b)
		all := difflib.NewMatcher(aL, bL).GetGroupedOpCodes(len(aL) + len(bL) + 1)
		saved := colors.NOCOLOR
		colors.NOCOLOR = !o.Colour
		report := prettyDiff(a, b, name, o.Count)
		colors.NOCOLOR = saved
		// the script the library chose and the bytes it printed are handed to the model, which prints that script itself and
		// READS the printed bytes back with its verified reader
		irep := "*"
		if !o.Colour {
			irep = vhex([]byte(report))
		}
		fmt.Fprintf(r.w, "op diff a=%s b=%s name=%s line=%d colour=%s ctx=%d iall=%s ireport=%s\n",
			vhex([]byte(a)), vhex([]byte(b)), vhex([]byte(name)), o.Count, vb(o.Colour), context, vGroupsString(all), irep)
		empty := "0"
		if report == "" {
			empty = "1"
		}
		own := "*"
		if !o.Colour {
			own = vhex([]byte(report))
		}
		fmt.Fprintf(r.w, "diff %d empty=%s valid=1 readable=1 report=%s own=%s\n", r.idx, empty, vhex([]byte(report)), own)
	}
}
