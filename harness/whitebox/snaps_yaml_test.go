//go:build verif

package snaps

// yamlset: applies YAML matchers to a document and reports the result decoded to JSON, so that
// the orchestrator can compare it semantically with its own expectation (no YAML model exists).

import (
	"encoding/json"
	"fmt"

	"github.com/goccy/go-yaml"
)

func init() {
	vExtraOps["yamlset"] = func(r *vRunner, o vOp) {
		doc := vunhex(o.Doc)
		fmt.Fprintf(r.w, "op yamlset doc=%s\n", vhex(doc))
		out, errs := applyYAMLMatchers(append([]byte{}, doc...), vBuildYAMLMatchers(o.Matchers)...)
		if len(errs) > 0 {
			fmt.Fprintf(r.w, "yamlset %d err=1 valid=- result=-\n", r.idx)
			return
		}
		// the result belongs to the caller: applying the matchers to ANOTHER document afterwards must not change it
		// (`out` is deliberately not copied before this second call)
		applyYAMLMatchers(append([]byte("aa_other_document: [1, 2, 3]\n"), doc...), vBuildYAMLMatchers(o.Matchers)...)
		var v any
		if err := yaml.Unmarshal(out, &v); err != nil {
			fmt.Fprintf(r.w, "yamlset %d err=0 valid=0 result=%s\n", r.idx, vhex(out))
			return
		}
		js, err := json.Marshal(v)
		if err != nil {
			fmt.Fprintf(r.w, "yamlset %d err=0 valid=0 result=%s\n", r.idx, vhex(out))
			return
		}
		fmt.Fprintf(r.w, "yamlset %d err=0 valid=1 result=%s\n", r.idx, vhex(js))
	}
}
