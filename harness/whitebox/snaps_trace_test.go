//go:build verif

package snaps

// Trace harness: executes operation sequences through the public API with a scripted
// testingT inside a sandbox directory and prints resolved ops + observations.
// Injected with `go test -overlay`; nothing of this lives in the repository.

import (
	goyaml "github.com/goccy/go-yaml"
	"bufio"
	"bytes"
	"encoding/hex"
	"encoding/json"
	"errors"
	"flag"
	"fmt"
	"io"
	"os"
	"path/filepath"
	"strconv"
	"reflect"
	"runtime"
	"sort"
	"strings"
	"syscall"
	"testing"
	"time"

	"github.com/gkampitakis/go-snaps/internal/colors"
	"github.com/gkampitakis/go-snaps/match"
	krpretty "github.com/kr/pretty"
)

type vMatcher struct {
	Kind         string   `json:"kind"` // any | type | custom
	Paths        []string `json:"paths"`
	Placeholder  *string  `json:"placeholder"` // JSON text of the placeholder value
	ErrOnMissing *bool    `json:"errOnMissing"`
	Type         string   `json:"type"` // string | float64 | bool | map | slice | uint64
	Ret          *string  `json:"ret"`  // custom: JSON text of the returned value
	Err          bool     `json:"err"`  // custom: callback returns an error
	Stmt         bool     `json:"stmt"` // options are set as separate statements on the built matcher (m.ErrOnMissingPath(false)), not chained
}

type vJSONCfg struct {
	Width    int    `json:"width"`
	Indent   string `json:"indent"`
	SortKeys bool   `json:"sortKeys"`
}

type vOp struct {
	Op       string     `json:"op"`
	API      string     `json:"api"`
	H        int        `json:"h"`
	Test     string     `json:"test"`   // hex
	Values   []string   `json:"values"` // hex (snap)
	NoValues bool       `json:"novalues"`
	Form     string     `json:"form"` // string | bytes | value
	Doc      string     `json:"doc"`  // hex (json / yaml / standalone value)
	Matchers []vMatcher `json:"matchers"`
	Fn       *string    `json:"fn"`  // hex
	Dir      *string    `json:"dir"` // hex, relative to the sandbox root
	Ext      *string    `json:"ext"` // hex
	Upd      *bool      `json:"upd"`
	JSON     *vJSONCfg  `json:"json"`
	Via      string     `json:"via"` // "util": the Match* call is written in the util test file (MatchSnapshot only)
	JSON2    *vJSONCfg  `json:"json2"` // an EARLIER JSON option in the same WithConfig call (overridden by `json`)
	CI       bool       `json:"ci"`
	UpdVar   string     `json:"updvar"` // unset | true | clean | other
	Colour   bool       `json:"colour"`
	Path     string     `json:"path"`    // hex, relative to the sandbox root
	Content  string     `json:"content"` // hex
	Sort     bool       `json:"sort"`
	RunOnly  string     `json:"runonly"` // hex
	Count    int        `json:"count"`
}

type vCase struct {
	ID  int    `json:"id"`
	Ops []vOp  `json:"ops"`
	CI  bool   `json:"ci"`
	Upd string `json:"updvar"`
	Col bool   `json:"colour"`
}

type vT struct {
	name     string
	errs     []any
	logs     []any
	cleanups []func()
	skips    int
}

func (t *vT) Helper()                 {}
func (t *vT) Skip(...any)             { t.skips++ }
func (t *vT) Skipf(string, ...any)    { t.skips++ }
func (t *vT) SkipNow()                { t.skips++ }
func (t *vT) Name() string            { return t.name }
func (t *vT) Error(a ...any)          { t.errs = append(t.errs, vOneCall(a)) }
func (t *vT) Log(a ...any)            { t.logs = append(t.logs, vOneCall(a)) }

// one item per call of Error/Log, however many arguments the call had
func vOneCall(a []any) any {
	if len(a) == 1 {
		return a[0]
	}
	return strings.TrimSuffix(fmt.Sprintln(a...), "\n")
}
func (t *vT) Cleanup(f func())        { t.cleanups = append(t.cleanups, f) }

func vhex(b []byte) string {
	if len(b) == 0 {
		return "-"
	}
	return hex.EncodeToString(b)
}

func vunhex(s string) []byte {
	if s == "-" || s == "" {
		return nil
	}
	b, err := hex.DecodeString(s)
	if err != nil {
		panic(err)
	}
	return b
}

const vRoot = "/S"

type vFileInfo struct {
	content []byte
	mtime   time.Time
	ino     uint64
}

var vPinned = time.Date(2001, 1, 1, 0, 0, 0, 0, time.UTC)

type vSandbox struct {
	root string
}

func (sb *vSandbox) virt(p string) string {
	if p == sb.root {
		return vRoot
	}
	if strings.HasPrefix(p, sb.root+"/") {
		return vRoot + p[len(sb.root):]
	}
	return p
}

func (sb *vSandbox) real(rel string) string {
	if rel == "" {
		return sb.root
	}
	return sb.root + "/" + rel
}

// snapshot of all regular files under root
func (sb *vSandbox) scan() map[string]vFileInfo {
	res := map[string]vFileInfo{}
	filepath.Walk(sb.root, func(p string, info os.FileInfo, err error) error {
		if err != nil || info.IsDir() {
			return nil
		}
		b, _ := os.ReadFile(p)
		var ino uint64
		if st, ok := info.Sys().(*syscall.Stat_t); ok {
			ino = st.Ino
		}
		res[p] = vFileInfo{content: b, mtime: info.ModTime(), ino: ino}
		return nil
	})
	return res
}

func (sb *vSandbox) dirs() []string {
	res := []string{}
	filepath.Walk(sb.root, func(p string, info os.FileInfo, err error) error {
		if err == nil && info.IsDir() && p != sb.root {
			res = append(res, sb.virt(p))
		}
		return nil
	})
	sort.Strings(res)
	return res
}

func (sb *vSandbox) pin() {
	filepath.Walk(sb.root, func(p string, info os.FileInfo, err error) error {
		if err == nil && !info.IsDir() {
			os.Chtimes(p, vPinned, vPinned)
		}
		return nil
	})
}

func (sb *vSandbox) writes(before, after map[string]vFileInfo) string {
	ws := []string{}
	for p, a := range after {
		b, ok := before[p]
		if !ok {
			ws = append(ws, "create:"+vhex([]byte(sb.virt(p))))
			continue
		}
		if !bytes.Equal(a.content, b.content) {
			ws = append(ws, "mod:"+vhex([]byte(sb.virt(p))))
		} else if !a.mtime.Equal(b.mtime) || a.ino != b.ino {
			// written (or replaced) with the bytes it already held
			ws = append(ws, "touch:"+vhex([]byte(sb.virt(p))))
		}
	}
	for p := range before {
		if _, ok := after[p]; !ok {
			ws = append(ws, "remove:"+vhex([]byte(sb.virt(p))))
		}
	}
	if len(ws) == 0 {
		return "-"
	}
	sort.Strings(ws)
	return strings.Join(ws, ",")
}

func vSetEnv(ci bool, upd string, colour bool) {
	isCI = ci
	switch upd {
	case "unset":
		updateVAR = ""
	case "true":
		updateVAR = "true"
	case "clean":
		updateVAR = "clean"
	default:
		updateVAR = "other"
		if strings.HasPrefix(upd, "raw:") {
			updateVAR = upd[4:]
		}
	}
	shouldClean = updateVAR == "true" || updateVAR == "clean"
	colors.NOCOLOR = !colour
}

func vb(b bool) string {
	if b {
		return "1"
	}
	return "0"
}

func vJSONValue(s *string, def any) any {
	if s == nil {
		return def
	}
	var v any
	if err := json.Unmarshal([]byte(*s), &v); err != nil {
		return *s
	}
	return v
}

func vBuildJSONMatchers(ms []vMatcher) []match.JSONMatcher {
	res := []match.JSONMatcher{}
	for _, m := range ms {
		m := m
		switch m.Kind {
		case "any":
			a := match.Any(m.Paths...)
			if m.Placeholder != nil {
				a = a.Placeholder(vJSONValue(m.Placeholder, nil))
			}
			if m.ErrOnMissing != nil {
				if m.Stmt {
					a.ErrOnMissingPath(*m.ErrOnMissing) // the documented setters modify the matcher they are called on
				} else {
					a = a.ErrOnMissingPath(*m.ErrOnMissing)
				}
			}
			res = append(res, a)
		case "type":
			eom := true
			if m.ErrOnMissing != nil {
				eom = *m.ErrOnMissing
			}
			switch m.Type {
			case "string":
				res = append(res, vType[string](m, eom))
			case "float64":
				res = append(res, vType[float64](m, eom))
			case "bool":
				res = append(res, vType[bool](m, eom))
			case "map":
				res = append(res, vType[map[string]any](m, eom))
			case "slice":
				res = append(res, vType[[]any](m, eom))
			case "uint64":
				res = append(res, vType[uint64](m, eom))
			default:
				panic("type " + m.Type)
			}
		case "custom":
			c := match.Custom(m.Paths[0], func(val any) (any, error) {
				if m.Err {
					return nil, errors.New("custom error")
				}
				return vJSONValue(m.Ret, "<custom>"), nil
			})
			if m.ErrOnMissing != nil {
				if m.Stmt {
					c.ErrOnMissingPath(*m.ErrOnMissing)
				} else {
					c = c.ErrOnMissingPath(*m.ErrOnMissing)
				}
			}
			res = append(res, c)
		default:
			panic("matcher " + m.Kind)
		}
	}
	return res
}

// vType builds a Type matcher; the option is chained or set as a separate statement on the built matcher
func vType[T any](m vMatcher, eom bool) match.JSONMatcher {
	tm := match.Type[T](m.Paths...)
	if m.Stmt {
		tm.ErrOnMissingPath(eom)
		return tm
	}
	return tm.ErrOnMissingPath(eom)
}

func vBuildYAMLMatchers(ms []vMatcher) []match.YAMLMatcher {
	res := []match.YAMLMatcher{}
	for _, jm := range vBuildJSONMatchers(ms) {
		res = append(res, jm.(match.YAMLMatcher))
	}
	return res
}

// vWrittenForm: the JSON text sjson writes for a Go value (a dependency's behaviour, restated here so that the model is handed
// a JSON text): strings are quoted raw unless they hold a control character, a quote, a backslash or a non-ASCII byte, in which
// case - like every other value - they go through encoding/json
func vWrittenForm(v any) []byte {
	if s, ok := v.(string); ok {
		plain := true
		for i := 0; i < len(s); i++ {
			if s[i] < ' ' || s[i] > 0x7e || s[i] == '"' || s[i] == '\\' {
				plain = false
				break
			}
		}
		if plain {
			return []byte(`"` + s + `"`)
		}
	}
	b, err := json.Marshal(v)
	if err != nil {
		return []byte("!unmarshalable")
	}
	return b
}

// The default LAYOUT of a JSON snapshot (line width, indentation) is a parameter of the model: the theorems hold for every
// width and every whitespace indentation, so the library's current defaults are read here and handed to the model. That
// object members are SORTED by default is not layout: C14 says so ("under the default configuration"), it stays pinned.
func vDefaultJSONLayout() (int, string, bool) {
	return defaultPrettyJSONOptions.Width, defaultPrettyJSONOptions.Indent, true
}

// vJSONExtra encodes, for the model, the inputs of a JSON call: jdoc = the JSON text (text input as given, a Go value as
// json.Marshal produced it), jms = the matcher specs, jopt = width:indent:sortkeys of the handle's DECLARED options.
func vJSONExtra(j []byte, jok bool, doc []byte, o vOp, r *vRunner, effCfg *Config) string {
	jdoc := doc
	if jok {
		jdoc = j
	} else if o.Form != "string" && o.Form != "bytes" && o.Form != "" {
		jdoc = []byte("!unmarshalable")
	}
	ms := []string{}
	for _, m := range o.Matchers {
		eom := "1"
		if m.ErrOnMissing != nil && !*m.ErrOnMissing {
			eom = "0"
		}
		ps := make([]string, len(m.Paths))
		for i, p := range m.Paths {
			ps[i] = vhex([]byte(p))
		}
		arg := "~"
		switch m.Kind {
		case "any":
			if m.Placeholder != nil {
				arg = vhex(vWrittenForm(vJSONValue(m.Placeholder, nil)))
			}
		case "type":
			if m.Type == "uint64" {
				return " jdoc=" + vhex(jdoc) + " jms=~ jopt=~" // Type[uint64] is outside the matcher model
			}
			arg = m.Type
		case "custom":
			if m.Err {
				arg = "!err"
			} else if m.Ret != nil {
				arg = vhex(vWrittenForm(vJSONValue(m.Ret, "<custom>")))
			} else {
				arg = vhex([]byte(`"<custom>"`))
			}
		}
		ms = append(ms, m.Kind+"|"+eom+"|"+arg+"|"+strings.Join(ps, "+"))
	}
	msS := "-"
	if len(ms) > 0 {
		msS = strings.Join(ms, ";")
	}
	width, indent, sortKeys := vDefaultJSONLayout()
	c := effCfg
	if o.H > 0 && o.H <= len(r.fresh) {
		c = r.fresh[o.H-1]()
	}
	if c.json != nil {
		width, indent, sortKeys = c.json.Width, c.json.Indent, c.json.SortKeys
	}
	return fmt.Sprintf(" jdoc=%s jms=%s jopt=%d:%s:%s", vhex(jdoc), msS, width, vhex([]byte(indent)), vb(sortKeys))
}

// vResolveYAML: the YAML text a MatchYAML call is about, independent of the library's validateYAML
func vResolveYAML(input any) ([]byte, error) {
	var out any
	switch v := input.(type) {
	case string:
		return []byte(v), goyaml.Unmarshal([]byte(v), &out)
	case []byte:
		return append([]byte{}, v...), goyaml.Unmarshal(v, &out)
	default:
		return goyaml.MarshalWithOptions(input, yamlEncodeOptions...)
	}
}

// vResolveJSON: the JSON text a Match*JSON call is about, independent of the library (see doMatch)
func vResolveJSON(input any) ([]byte, bool) {
	switch v := input.(type) {
	case string:
		return []byte(v), json.Valid([]byte(v))
	case []byte:
		return append([]byte{}, v...), json.Valid(v)
	default:
		b, err := json.Marshal(v)
		if err != nil {
			return nil, false
		}
		return b, true
	}
}

func vInput(form string, doc []byte) any {
	switch form {
	case "rawmsg":
		// a Go value whose top-level type implements json.Marshaler
		return json.RawMessage(append([]byte{}, doc...))
	case "bytes":
		return append([]byte{}, doc...)
	case "value":
		var v any
		if err := json.Unmarshal(doc, &v); err != nil {
			return func() {} // not marshalable
		}
		return v
	default:
		return string(doc)
	}
}

// vRenderValue: every field of a value, pointers followed - whatever the fields are called. Used to tell whether a call
// changed the Config it went through ("using a Config for any Match* call never changes that Config").
func vRenderValue(v reflect.Value, depth int) string {
	if depth > 6 {
		return "..."
	}
	switch v.Kind() {
	case reflect.Ptr, reflect.Interface:
		if v.IsNil() {
			return "nil"
		}
		return "&" + vRenderValue(v.Elem(), depth+1)
	case reflect.Struct:
		parts := []string{}
		for i := 0; i < v.NumField(); i++ {
			parts = append(parts, v.Type().Field(i).Name+":"+vRenderValue(v.Field(i), depth+1))
		}
		return "{" + strings.Join(parts, " ") + "}"
	case reflect.Slice, reflect.Array:
		parts := []string{}
		for i := 0; i < v.Len(); i++ {
			parts = append(parts, vRenderValue(v.Index(i), depth+1))
		}
		return "[" + strings.Join(parts, " ") + "]"
	case reflect.Map:
		parts := []string{}
		for _, k := range v.MapKeys() {
			parts = append(parts, vRenderValue(k, depth+1)+"="+vRenderValue(v.MapIndex(k), depth+1))
		}
		sort.Strings(parts)
		return "map[" + strings.Join(parts, " ") + "]"
	case reflect.String:
		return strconv.Quote(v.String())
	case reflect.Bool:
		return strconv.FormatBool(v.Bool())
	case reflect.Int, reflect.Int8, reflect.Int16, reflect.Int32, reflect.Int64:
		return strconv.FormatInt(v.Int(), 10)
	case reflect.Uint, reflect.Uint8, reflect.Uint16, reflect.Uint32, reflect.Uint64, reflect.Uintptr:
		return strconv.FormatUint(v.Uint(), 10)
	case reflect.Func, reflect.Chan, reflect.UnsafePointer:
		return "<" + v.Kind().String() + ">"
	}
	return "?"
}

func vClassifyErr(e any) string {
	switch v := e.(type) {
	case error:
		if errors.Is(v, errSnapNotFound) {
			return "notfound"
		}
		if errors.Is(v, errInvalidJSON) || strings.HasPrefix(v.Error(), "invalid yaml") ||
			strings.HasPrefix(v.Error(), "json:") {
			return "invalid"
		}
		return "other:" + hex.EncodeToString([]byte(v.Error()))
	case string:
		if strings.Contains(v, "match.") && strings.Contains(v, errorSymbol+"match.") {
			return "matchers"
		}
		if strings.Contains(v, "Snapshot ") && strings.Contains(v, "Received ") {
			return "diff"
		}
		return "otherstr:" + hex.EncodeToString([]byte(v))
	}
	return "unknown"
}

func vClassifyLog(l any) string {
	s := strings.ToLower(fmt.Sprint(l))
	// the keyword that comes FIRST decides ("Snapshot updated (2 lines added)" is an update)
	best, bestAt := "", len(s)+1
	for _, k := range []string{"added", "updated", "skipped"} {
		if at := strings.Index(s, k); at >= 0 && at < bestAt {
			best, bestAt = k, at
		}
	}
	if best != "" {
		return best
	}
	switch {
	case strings.Contains(s, "[warning]"):
		return "warning"
	}
	return "unknown"
}

type vRunner struct {
	sb    *vSandbox
	w     *bufio.Writer
	tests map[string]*vT
	cfgs  []*Config
	fresh []func() *Config // rebuilds handle h's Config from the options it was created with (never used for a call)
	jsonOpts map[string]func(*Config) // JSON option values shared by the Configs of a case
	idx   int
	// matcher values are reused for identical specs within a case, the way a table test
	// shares one matcher across documents
	mcache map[string][]match.JSONMatcher
}

func (r *vRunner) matchers(ms []vMatcher) []match.JSONMatcher {
	if len(ms) == 0 {
		return nil
	}
	key, _ := json.Marshal(ms)
	if r.mcache == nil {
		r.mcache = map[string][]match.JSONMatcher{}
	}
	if m, ok := r.mcache[string(key)]; ok {
		return m
	}
	m := vBuildJSONMatchers(ms)
	r.mcache[string(key)] = m
	return m
}

func (r *vRunner) yamlMatchers(ms []vMatcher) []match.YAMLMatcher {
	res := []match.YAMLMatcher{}
	for _, jm := range r.matchers(ms) {
		res = append(res, jm.(match.YAMLMatcher))
	}
	return res
}

func (r *vRunner) t(name string) *vT {
	if t, ok := r.tests[name]; ok {
		return t
	}
	t := &vT{name: name}
	r.tests[name] = t
	return t
}

func vEvents() [4]int {
	testEvents.Lock()
	defer testEvents.Unlock()
	return [4]int{testEvents.items[erred], testEvents.items[added], testEvents.items[updated], testEvents.items[passed]}
}

func vResetProcess(defdir string) {
	testsRegistry = newRegistry()
	standaloneTestsRegistry = newStandaloneRegistry()
	testEvents = newTestEvents()
	skippedTests = newSyncSlice()
	defaultConfig = Config{snapsDir: defdir}
}

// footer line of a diff report: "at <rel>:<line>"
func vFooterLine(e any) int {
	s, ok := e.(string)
	if !ok {
		return 0
	}
	i := strings.LastIndex(s, "\nat ")
	if i < 0 {
		i = strings.LastIndex(s, "at ")
		if i < 0 {
			return 0
		}
	}
	rest := strings.TrimSpace(s[i:])
	rest = strings.TrimSuffix(rest, "\x1b[0m")
	j := strings.LastIndex(rest, ":")
	if j < 0 {
		return 0
	}
	n := 0
	fmt.Sscanf(rest[j+1:], "%d", &n)
	return n
}

func (r *vRunner) doMatch(o vOp) {
	name := string(vunhex(o.Test))
	t := r.t(name)
	var cfg *Config
	if o.H > 0 {
		if o.H > len(r.cfgs) {
			// unknown handle (can happen in shrunk cases): no call is made
			r.plain("match api=%s h=%d test=%s pre=novalues", o.API, o.H, vhex([]byte(name)))
			return
		}
		cfg = r.cfgs[o.H-1]
	}
	effCfg := &defaultConfig
	if cfg != nil {
		effCfg = cfg
	}

	// ---- resolve what validation/matchers/formatting produce (on copies) ----
	pre := ""
	jsonExtra := ""
	var call func()
	switch o.API {
	case "snap":
		if o.NoValues {
			pre = "novalues"
			call = func() {
				if cfg == nil {
					MatchSnapshot(t)
				} else {
					cfg.MatchSnapshot(t)
				}
			}
			break
		}
		vals := make([]any, len(o.Values))
		strs := make([]string, len(o.Values))
		for i, v := range o.Values {
			vals[i] = string(vunhex(v))
			strs[i] = krpretty.Sprint(vals[i])
		}
		pre = "ok:" + vhex([]byte(strings.Join(strs, "\n")))
		call = func() {
			if cfg == nil {
				MatchSnapshot(t, vals...)
			} else {
				cfg.MatchSnapshot(t, vals...)
			}
		}
		if o.Via == "util" {
			call = func() { vUtilMatchSnapshot(cfg, t, vals...) }
		}
	case "json", "standjson":
		doc := vunhex(o.Doc)
		// what the call must be judged against is computed WITHOUT the library's own validateJSON: text input is
		// the text itself if it is valid JSON (encoding/json's strict validator), a Go value is json.Marshal(value)
		j, jok := vResolveJSON(vInput(o.Form, doc))
		// what the MODEL needs to compute the payload itself (driver/cmd_jpre.ml): the JSON text, the matcher specs, the options
		jsonExtra = vJSONExtra(j, jok, doc, o, r, effCfg)
		if !jok {
			pre = "invalid"
		} else {
			j = append([]byte{}, j...)
			j2, merrs := applyJSONMatchers(j, r.matchers(o.Matchers)...)
			if len(merrs) > 0 {
				pre = "matcherr"
			} else {
				// the expected rendering depends on the OPTIONS of the handle alone: computed with a Config freshly
				// built from them, so that a Config mutated by earlier calls shows up as a difference
				c2 := *effCfg
				if o.H > 0 && o.H <= len(r.fresh) {
					c2 = *r.fresh[o.H-1]()
				}
				pre = "ok:" + vhex([]byte(takeJSONSnapshot(&c2, j2)))
			}
		}
		input := vInput(o.Form, doc)
		ms := r.matchers(o.Matchers)
		if o.API == "json" {
			call = func() {
				if cfg == nil {
					MatchJSON(t, input, ms...)
				} else {
					cfg.MatchJSON(t, input, ms...)
				}
			}
		} else {
			call = func() {
				if cfg == nil {
					MatchStandaloneJSON(t, input, ms...)
				} else {
					cfg.MatchStandaloneJSON(t, input, ms...)
				}
			}
		}
	case "yaml":
		doc := vunhex(o.Doc)
		// validity is judged WITHOUT the library's own validateYAML: text is valid iff goccy/go-yaml decodes it (syntax,
		// anchors and aliases); a Go value goes through the library's encoder options
		y, err := vResolveYAML(vInput(o.Form, doc))
		if err != nil {
			pre = "invalid"
		} else {
			y = append([]byte{}, y...)
			y2, merrs := applyYAMLMatchers(y, r.yamlMatchers(o.Matchers)...)
			if len(merrs) > 0 {
				pre = "matcherr"
			} else {
				pre = "ok:" + vhex(y2)
			}
		}
		input := vInput(o.Form, doc)
		ms := r.yamlMatchers(o.Matchers)
		call = func() {
			if cfg == nil {
				MatchYAML(t, input, ms...)
			} else {
				cfg.MatchYAML(t, input, ms...)
			}
		}
	case "stand":
		val := string(vunhex(o.Doc))
		pre = "ok:" + vhex([]byte(krpretty.Sprint(val)))
		call = func() {
			if cfg == nil {
				MatchStandaloneSnapshot(t, val)
			} else {
				cfg.MatchStandaloneSnapshot(t, val)
			}
		}
	default:
		panic("api " + o.API)
	}

	via := ""
	if o.Via != "" {
		via = " via=" + o.Via
	}
	form := ""
	if o.Form != "" {
		form = " form=" + o.Form // string | bytes | value: how the document was handed to the entry point
	}
	fmt.Fprintf(r.w, "op match api=%s h=%d test=%s pre=%s%s%s%s\n", o.API, o.H, vhex([]byte(name)), pre, jsonExtra, via, form)

	before := r.sb.scan()
	ev0 := vEvents()
	nerr, nlog := len(t.errs), len(t.logs)
	cfg0 := vRenderValue(reflect.ValueOf(effCfg), 0)
	call()
	cfgSame := vRenderValue(reflect.ValueOf(effCfg), 0) == cfg0
	ev1 := vEvents()
	after := r.sb.scan()

	errs := t.errs[nerr:]
	logs := t.logs[nlog:]
	d := [4]int{ev1[0] - ev0[0], ev1[1] - ev0[1], ev1[2] - ev0[2], ev1[3] - ev0[3]}
	outcome := ""
	switch d {
	case [4]int{1, 0, 0, 0}:
		k := "none"
		if len(errs) > 0 {
			k = vClassifyErr(errs[0])
		}
		outcome = "failed:" + k
	case [4]int{0, 1, 0, 0}:
		outcome = "added"
	case [4]int{0, 0, 1, 0}:
		outcome = "updated"
	case [4]int{0, 0, 0, 1}:
		outcome = "passed"
	case [4]int{0, 0, 0, 0}:
		outcome = "nocount"
		if k := ""; len(logs) == 1 && len(errs) == 0 {
			// one log, no error, no counter moved: the call was turned away with a warning (however it is worded)
			if k = vClassifyLog(logs[0]); k == "warning" || k == "unknown" {
				outcome = "warned"
			}
		}
	default:
		outcome = fmt.Sprintf("multi:%v", d)
	}
	lk := []string{}
	for _, l := range logs {
		lk = append(lk, vClassifyLog(l))
	}
	logsS := "-"
	if len(lk) > 0 {
		logsS = strings.Join(lk, ",")
	}
	line := 0
	if len(errs) > 0 && strings.HasPrefix(outcome, "failed:diff") {
		line = vFooterLine(errs[0])
	}
	// the text of a matcher failure (never compared with the model: C17's oracle looks for the failing paths in it)
	etext := "-"
	if len(errs) > 0 && (outcome == "failed:matchers" || pre == "matcherr") {
		if s, ok := errs[0].(string); ok {
			etext = vhex([]byte(s))
		} else {
			etext = vhex([]byte(fmt.Sprint(errs[0]))) // an error value (e.g. "snapshot not found") where the failing matchers should be named
		}
	}
	jpre := "*"
	if jsonExtra != "" {
		jpre = "1" // the model recomputes the payload from the document, the matchers and the options and must agree
	}
	fmt.Fprintf(r.w, "obs %d outcome=%s errors=%d logs=%s writes=%s line=%d etext=%s jpre=%s cfgsame=%s\n",
		r.idx, outcome, len(errs), logsS, r.sb.writes(before, after), line, etext, jpre, vb(cfgSame))
	r.sb.pin()
}

func (r *vRunner) plain(format string, a ...any) {
	fmt.Fprintf(r.w, "op "+format+"\n", a...)
	fmt.Fprintf(r.w, "obs %d outcome=nocall errors=0 logs=- writes=- line=0\n", r.idx)
}

func vOptHex(s *string) string {
	if s == nil {
		return "~"
	}
	return vhex(vunhex(*s))
}

func (r *vRunner) run(c vCase) {
	fmt.Fprintf(r.w, "case %d\n", c.ID)
	defdir := r.sb.root + "/def"
	vResetProcess(defdir)
	vSetEnv(c.CI, c.Upd, c.Col)
	r.tests = map[string]*vT{}
	r.cfgs = nil
	r.fresh = nil
	r.jsonOpts = nil
	r.idx = 0
	r.mcache = nil
	_, callerFile := vCaller()
	fmt.Fprintf(r.w, "op init caller=%s defdir=%s ci=%s upd=%s colour=%s\n",
		vhex([]byte(callerFile)), vhex([]byte(r.sb.virt(defdir))), vb(c.CI), c.Upd, vb(c.Col))
	for _, o := range c.Ops {
		switch o.Op {
		case "dumpfs":
			files := r.sb.scan()
			parts := []string{}
			for p, fi := range files {
				parts = append(parts, vhex([]byte(r.sb.virt(p)))+"="+vhex(fi.content))
			}
			sort.Strings(parts)
			fmt.Fprintf(r.w, "op dumpfs\nfs %d %s\n", r.idx, strings.Join(parts, " "))
			// the directories (the model does not speak about them: its line says list=*; oracles that read "directories are
			// never touched" do)
			ds := r.sb.dirs()
			for i, d := range ds {
				ds[i] = vhex([]byte(d))
			}
			dl := "~"
			if len(ds) > 0 {
				dl = strings.Join(ds, ",")
			}
			fmt.Fprintf(r.w, "dirs %d list=%s\n", r.idx, dl)
			continue
		case "readslots":
			// the REPLAY VIEW of a multi-entry file: what the library's own reader returns for each of the given headers
			// ("~" = no such entry) - what a later Match* call would compare with, whatever the bytes in between look like
			p := r.sb.real(string(vunhex(o.Path)))
			parts := []string{}
			for _, idh := range o.Values {
				v := "~"
				if s, _, err := getPrevSnapshot(string(vunhex(idh)), p); err == nil {
					v = vhex([]byte(s))
				}
				parts = append(parts, vhex(vunhex(idh))+"="+v)
			}
			fmt.Fprintf(r.w, "op readslots path=%s ids=%s\nslots %d %s\n", vhex([]byte(r.sb.virt(p))), strings.Join(o.Values, ","), r.idx, strings.Join(parts, " "))
			continue
		case "counters":
			ev := vEvents()
			fmt.Fprintf(r.w, "op counters\ncounters %d erred=%d added=%d updated=%d passed=%d skipped=%d\n",
				r.idx, ev[0], ev[1], ev[2], ev[3], len(skippedTests.values))
			continue
		}
		r.idx++
		switch o.Op {
		case "match":
			r.doMatch(o)
		case "endtest":
			name := string(vunhex(o.Test))
			if t, ok := r.tests[name]; ok {
				for i := len(t.cleanups) - 1; i >= 0; i-- {
					t.cleanups[i]()
				}
				delete(r.tests, name)
			}
			r.plain("endtest test=%s", vhex([]byte(name)))
		case "skip":
			name := string(vunhex(o.Test))
			t := r.t(name)
			nlog := len(t.logs)
			nskip := t.skips
			switch o.Form { // the three wrappers record the test name alike
			case "f":
				Skipf(t, "skipped by %s", "harness")
			case "now":
				SkipNow(t)
			default:
				Skip(t, "skipped by harness")
			}
			lk := []string{}
			for _, l := range t.logs[nlog:] {
				lk = append(lk, vClassifyLog(l))
			}
			fmt.Fprintf(r.w, "op skip test=%s\n", vhex([]byte(name)))
			oc := "skiplogged"
			if t.skips != nskip+1 {
				oc = fmt.Sprintf("skipnotforwarded:%d", t.skips-nskip) // the wrapper must end in exactly one testing.T Skip/Skipf/SkipNow
			}
			fmt.Fprintf(r.w, "obs %d outcome=%s errors=0 logs=%s writes=- line=0\n", r.idx, oc, strings.Join(lk, ","))
		case "newconfig":
			opts := []func(*Config){}
			dirS := "~"
			if o.Fn != nil {
				opts = append(opts, Filename(string(vunhex(*o.Fn))))
			}
			if o.Dir != nil {
				d := r.sb.real(string(vunhex(*o.Dir)))
				opts = append(opts, Dir(d))
				dirS = vhex([]byte(r.sb.virt(d)))
			}
			if o.Ext != nil {
				opts = append(opts, Ext(string(vunhex(*o.Ext))))
			}
			updS := "~"
			if o.Upd != nil {
				opts = append(opts, Update(*o.Upd))
				updS = vb(*o.Upd)
			}
			if o.JSON2 != nil {
				opts = append(opts, JSON(JSONConfig{Width: o.JSON2.Width, Indent: o.JSON2.Indent, SortKeys: o.JSON2.SortKeys}))
			}
			if o.JSON != nil {
				// option VALUES are shared between the Configs of a case that declare the same JSON options, the way a test
				// file keeps `sorted := snaps.JSON(...)` in a variable: an option value must not remember where it was used
				key := fmt.Sprintf("%d|%q|%v", o.JSON.Width, o.JSON.Indent, o.JSON.SortKeys)
				if r.jsonOpts == nil {
					r.jsonOpts = map[string]func(*Config){}
				}
				if _, ok := r.jsonOpts[key]; !ok {
					r.jsonOpts[key] = JSON(JSONConfig{Width: o.JSON.Width, Indent: o.JSON.Indent, SortKeys: o.JSON.SortKeys})
				}
				opts = append(opts, r.jsonOpts[key])
			}
			r.cfgs = append(r.cfgs, WithConfig(opts...))
			jsonOpt := o.JSON
			fnO, dirO, extO, updO := o.Fn, o.Dir, o.Ext, o.Upd
			r.fresh = append(r.fresh, func() *Config {
				// option VALUES are rebuilt too: nothing is shared with the Config the calls go through
				fo := []func(*Config){}
				if fnO != nil {
					fo = append(fo, Filename(string(vunhex(*fnO))))
				}
				if dirO != nil {
					fo = append(fo, Dir(r.sb.real(string(vunhex(*dirO)))))
				}
				if extO != nil {
					fo = append(fo, Ext(string(vunhex(*extO))))
				}
				if updO != nil {
					fo = append(fo, Update(*updO))
				}
				if jsonOpt != nil {
					fo = append(fo, JSON(JSONConfig{Width: jsonOpt.Width, Indent: jsonOpt.Indent, SortKeys: jsonOpt.SortKeys}))
				}
				return WithConfig(fo...)
			})
			r.plain("newconfig fn=%s dir=%s ext=%s upd=%s", vOptHex(o.Fn), dirS, vOptHex(o.Ext), updS)
		case "setenv":
			vSetEnv(o.CI, o.UpdVar, o.Colour)
			r.plain("setenv ci=%s upd=%s colour=%s", vb(o.CI), o.UpdVar, vb(o.Colour))
		case "putfile":
			p := r.sb.real(string(vunhex(o.Path)))
			os.MkdirAll(filepath.Dir(p), 0o777)
			if err := os.WriteFile(p, vunhex(o.Content), 0o666); err != nil {
				panic(err)
			}
			r.sb.pin()
			r.plain("putfile path=%s content=%s", vhex([]byte(r.sb.virt(p))), vhex(vunhex(o.Content)))
		case "putdir":
			p := r.sb.real(string(vunhex(o.Path)))
			os.MkdirAll(p, 0o777)
			r.plain("putdir path=%s", vhex([]byte(r.sb.virt(p))))
		case "symlink":
			// path = the link, content = what it points to (both relative to the sandbox root)
			link, target := r.sb.real(string(vunhex(o.Path))), r.sb.real(string(vunhex(o.Content)))
			os.MkdirAll(filepath.Dir(link), 0o777)
			os.MkdirAll(target, 0o777)
			if err := os.Symlink(target, link); err != nil {
				panic(err)
			}
			r.plain("symlink path=%s target=%s", vhex([]byte(r.sb.virt(link))), vhex([]byte(r.sb.virt(target))))
		case "newprocess":
			vResetProcess(defdir)
			r.tests = map[string]*vT{}
			r.cfgs = nil
			r.fresh = nil
			r.plain("newprocess")
		default:
			if !r.extraOp(o) {
				panic("unknown op " + o.Op)
			}
		}
	}
}

//go:noinline
func vCaller() (int, string) {
	// the file name baseCaller will see for calls made from this file
	_, file, _, _ := runtime.Caller(0)
	return 0, file
}

func TestVerifTrace(t *testing.T) {
	in := os.Getenv("VERIF_IN")
	out := os.Getenv("VERIF_OUT")
	if in == "" || out == "" {
		t.Skip("VERIF_IN / VERIF_OUT not set")
	}
	_ = flag.Lookup
	fin, err := os.Open(in)
	if err != nil {
		t.Fatal(err)
	}
	defer fin.Close()
	fout, err := os.Create(out)
	if err != nil {
		t.Fatal(err)
	}
	defer fout.Close()
	w := bufio.NewWriterSize(fout, 1<<20)
	defer w.Flush()

	fmt.Fprintln(w, vCanaries())
	rd := bufio.NewReaderSize(fin, 1<<20)
	for {
		line, err := rd.ReadBytes('\n')
		if len(bytes.TrimSpace(line)) > 0 {
			var c vCase
			if jerr := json.Unmarshal(line, &c); jerr != nil {
				t.Fatal(jerr)
			}
			root, merr := os.MkdirTemp("", "vsb")
			if merr != nil {
				t.Fatal(merr)
			}
			root, _ = filepath.EvalSymlinks(root)
			r := &vRunner{sb: &vSandbox{root: root}, w: w}
			r.run(c)
			vLockAll(root, false) // (a case may have made its files immutable)
			os.RemoveAll(root)
		}
		if err == io.EOF {
			break
		}
		if err != nil {
			t.Fatal(err)
		}
	}
}
