//go:build verif

package snaps

// snappath op: where would a call with this Config / test name / call shape store its snapshot?
// (pure: snapshotPath touches no file). The frames actually on the stack are recorded and
// handed to the model.

import (
	"fmt"
	"os"
	"path/filepath"
	"reflect"
	"strings"
)

// The probe calls snapshotPath the way the exported functions do today (two frames below the user's call, the
// standalone name carrying a %d). Whether that is still how the library calls it is CHECKED, once per process: a real
// MatchSnapshot / MatchStandaloneSnapshot made from the util test file (a leaf whose attribution changes with the
// frame distance) into the sandbox must create exactly the file the probe names. If not, the probe says nothing about
// the library (probe=0): the oracle refrains and the correspondence reports that the tie is gone.
var vProbeState = 0 // 0 unknown, 1 calibrated, 2 off

func vProbeCalibrated(r *vRunner) bool {
	if vProbeState != 0 {
		return vProbeState == 1
	}
	vProbeState = 2
	dir := filepath.Join(r.sb.root, "calib")
	c := WithConfig(Dir(dir), Update(true))
	savedEv, savedCI := testEvents, isCI
	testEvents = newTestEvents()
	isCI = false
	ok := true
	for _, standalone := range []bool{false, true} {
		os.RemoveAll(dir)
		t := &vT{name: "TestCalib"}
		vLeafUtilReal(c, t, standalone)
		for _, f := range t.cleanups {
			f()
		}
		p, _, _ := vLeafUtil(c, "TestCalib", standalone)
		if standalone {
			p = strings.Replace(p, "%d", "1", 1)
		}
		ents, _ := os.ReadDir(dir)
		if len(ents) != 1 || filepath.Join(dir, ents[0].Name()) != p {
			ok = false
		}
	}
	os.RemoveAll(dir)
	testEvents, isCI = savedEv, savedCI
	if ok {
		vProbeState = 1
	}
	return ok
}

//go:noinline
func vHelperOtherTestFile(f func()) { f() }

func init() {
	vExtraOps["snappath"] = func(r *vRunner, o vOp) {
		opts := []func(*Config){}
		fn, dir, ext := "~", "~", "~"
		if o.Fn != nil {
			opts = append(opts, Filename(string(vunhex(*o.Fn))))
			fn = vhex(vunhex(*o.Fn))
		}
		if o.Dir != nil {
			opts = append(opts, Dir(string(vunhex(*o.Dir)))) // NOT resolved against the sandbox: may be relative
			dir = vhex(vunhex(*o.Dir))
		}
		if o.Ext != nil {
			opts = append(opts, Ext(string(vunhex(*o.Ext))))
			ext = vhex(vunhex(*o.Ext))
		}
		savedDef := defaultConfig
		defaultConfig = Config{snapsDir: "__snapshots__"} // the library's real default for this probe
		c := WithConfig(opts...)
		defaultConfig = savedDef
		if o.Dir == nil {
			dir = vhex([]byte(c.snapsDir))
		}
		name := string(vunhex(o.Test))
		standalone := o.API == "stand" || o.API == "standjson"
		if o.API == "standjson" && c.extension == "" {
			c.extension = ".json"
			ext = vhex([]byte(".json"))
		}
		savedTrim := isTrimBathBuild
		isTrimBathBuild = o.Sort // the Sort field carries the -trimpath switch for this op
		var p string
		var frames []VFrame
		call := func() { p, _, frames = VProbeExported(c, name, standalone) }
		// Form = where the Match* call itself is written
		switch o.Form {
		case "nontest":
			call = func() { p, _, frames = VLeafNonTest(c, name, standalone) }
		case "utiltest":
			call = func() { p, _, frames = vLeafUtil(c, name, standalone) }
		case "nontest_via_util":
			call = func() { p, _, frames = vLeafNonTestViaUtil(c, name, standalone) }
		case "nontestdeep":
			depth := o.Count
			call = func() { p, _, frames = VLeafDeepNonTest(depth, c, name, standalone) }
		}
		// Values = wrappers around it, outermost first
		for i := len(o.Values) - 1; i >= 0; i-- {
			inner := call
			switch o.Values[i] {
			case "nontest":
				call = func() { VHelperNonTestA(inner) }
			case "nontest2":
				call = func() { VHelperNonTestB(inner) }
			case "othertest":
				call = func() { vHelperOtherTestFile(inner) }
			case "utiltest":
				call = func() { vHelperUtilFile(inner) }
			case "closure":
				call = func() { func() { inner() }() }
			case "goroutine":
				call = func() {
					done := make(chan struct{})
					go func() { defer close(done); VHelperNonTestA(inner) }()
					<-done
				}
			}
		}
		cfg0 := vRenderValue(reflect.ValueOf(c), 0)
		def0 := vRenderValue(reflect.ValueOf(&defaultConfig), 0)
		call()
		// resolving a location changes neither the Config it is resolved for nor the package defaults
		cfgSame := vRenderValue(reflect.ValueOf(c), 0) == cfg0 && vRenderValue(reflect.ValueOf(&defaultConfig), 0) == def0
		isTrimBathBuild = savedTrim
		fs := make([]string, len(frames))
		for i, f := range frames {
			fs[i] = vhex([]byte(f.Func)) + "@" + vhex([]byte(f.File))
		}
		fmt.Fprintf(r.w, "op snappath fn=%s dir=%s ext=%s test=%s standalone=%s trim=%s frames=%s\n",
			fn, dir, ext, vhex([]byte(name)), vb(standalone), vb(o.Sort), strings.Join(fs, ","))
		// for a standalone location also the path of the FIRST call, as the library itself derives it from the generic path (a
		// fresh ordinal registry): the generic path's placeholder scheme is the library's own business, the k-th path is what the
		// property speaks about ("*" on the model's side: compared by the oracle only)
		first := "-"
		if standalone {
			f1, _ := newStandaloneRegistry().getTestID(p, p)
			first = vhex([]byte(f1))
		}
		fmt.Fprintf(r.w, "snappath %d probe=%s cfgsame=%s path=%s first=%s\n", r.idx, vb(vProbeCalibrated(r)), vb(cfgSame), vhex([]byte(p)), first)
	}
}
