//go:build verif

package snaps

// snappath op: where would a call with this Config / test name / call shape store its snapshot?
// (pure: snapshotPath touches no file). The frames actually on the stack are recorded and
// handed to the model.

import (
	"fmt"
	"strings"
)

//go:noinline
func vHelperOtherTestFile(f func()) { f() }

func init() {
	vExtraOps["snappath"] = func(r *vRunner, o vOp) {
		opts := []func(*Config){}
		fn, dir, ext := "~", "~", "~"
		if o.Fn != nil {
			opts = append(opts, Filename(string(vunhex(*o.Fn))))
			fn = vhex(vunhex(*o.Fn))
		}
		if o.Dir != nil {
			opts = append(opts, Dir(string(vunhex(*o.Dir)))) // NOT resolved against the sandbox: may be relative
			dir = vhex(vunhex(*o.Dir))
		}
		if o.Ext != nil {
			opts = append(opts, Ext(string(vunhex(*o.Ext))))
			ext = vhex(vunhex(*o.Ext))
		}
		savedDef := defaultConfig
		defaultConfig = Config{snapsDir: "__snapshots__"} // the library's real default for this probe
		c := WithConfig(opts...)
		defaultConfig = savedDef
		if o.Dir == nil {
			dir = vhex([]byte(c.snapsDir))
		}
		name := string(vunhex(o.Test))
		standalone := o.API == "stand" || o.API == "standjson"
		if o.API == "standjson" && c.extension == "" {
			c.extension = ".json"
			ext = vhex([]byte(".json"))
		}
		savedTrim := isTrimBathBuild
		isTrimBathBuild = o.Sort // the Sort field carries the -trimpath switch for this op
		var p string
		var frames []VFrame
		call := func() { p, _, frames = VProbeExported(c, name, standalone) }
		// Form = where the Match* call itself is written
		switch o.Form {
		case "nontest":
			call = func() { p, _, frames = VLeafNonTest(c, name, standalone) }
		case "utiltest":
			call = func() { p, _, frames = vLeafUtil(c, name, standalone) }
		case "nontestdeep":
			depth := o.Count
			call = func() { p, _, frames = VLeafDeepNonTest(depth, c, name, standalone) }
		}
		// Values = wrappers around it, outermost first
		for i := len(o.Values) - 1; i >= 0; i-- {
			inner := call
			switch o.Values[i] {
			case "nontest":
				call = func() { VHelperNonTestA(inner) }
			case "nontest2":
				call = func() { VHelperNonTestB(inner) }
			case "othertest":
				call = func() { vHelperOtherTestFile(inner) }
			case "utiltest":
				call = func() { vHelperUtilFile(inner) }
			case "closure":
				call = func() { func() { inner() }() }
			case "goroutine":
				call = func() {
					done := make(chan struct{})
					go func() { defer close(done); VHelperNonTestA(inner) }()
					<-done
				}
			}
		}
		call()
		isTrimBathBuild = savedTrim
		fs := make([]string, len(frames))
		for i, f := range frames {
			fs[i] = vhex([]byte(f.Func)) + "@" + vhex([]byte(f.File))
		}
		fmt.Fprintf(r.w, "op snappath fn=%s dir=%s ext=%s test=%s standalone=%s trim=%s frames=%s\n",
			fn, dir, ext, vhex([]byte(name)), vb(standalone), vb(o.Sort), strings.Join(fs, ","))
		fmt.Fprintf(r.w, "snappath %d path=%s\n", r.idx, vhex([]byte(p)))
	}
}
