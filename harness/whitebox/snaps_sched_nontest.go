//go:build verif

package snaps

// verifYield is called by the yield-instrumented copies of the sources (harness/yieldgen).
// Outside a controlled run the hook is nil and the call costs nothing.

var vSchedHook func(kind string)

func verifYield(kind string) {
	if h := vSchedHook; h != nil {
		h(kind)
	}
}
