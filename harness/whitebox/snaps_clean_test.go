//go:build verif

package snaps

// clean / natural / testid ops: Clean with captured stdout (parsed summary), the natural
// comparator, and header recognition.

import (
	"bytes"
	"flag"
	"fmt"
	"io"
	"os"
	"path/filepath"
	"regexp"
	"slices"
	"sort"
	"strings"
	"testing"

	"github.com/gkampitakis/go-snaps/internal/colors"
	"github.com/maruel/natural"
)

var (
	vSumCount = regexp.MustCompile(`(?m)^. (\d+) snapshots? (passed|failed|added|updated|skipped)$`)
	vSumList  = regexp.MustCompile(`(?m)^› (\d+) snapshot (files?|tests?) (obsolete|removed)$`)
	vSumItem  = regexp.MustCompile(`(?m)^  ↳\s+•\s(.*)$`)
	vAnsi     = regexp.MustCompile("\x1b\\[[0-9;]*m")
	vItemTest = regexp.MustCompile(`^.+ - [0-9]+$`)
)

func vCaptureStdout(f func()) string {
	old := os.Stdout
	rd, wr, err := os.Pipe()
	if err != nil {
		panic(err)
	}
	os.Stdout = wr
	done := make(chan string)
	go func() {
		var buf bytes.Buffer
		io.Copy(&buf, rd)
		done <- buf.String()
	}()
	f()
	wr.Close()
	os.Stdout = old
	return <-done
}

func vHexList(items []string, virt func(string) string) string {
	if len(items) == 0 {
		return "~"
	}
	hs := make([]string, len(items))
	for i, it := range items {
		hs[i] = vhex([]byte(virt(it)))
	}
	sort.Strings(hs)
	return strings.Join(hs, ",")
}

func init() {
	vExtraOps["clean"] = func(r *vRunner, o vOp) {
		count := o.Count
		if count <= 0 {
			count = 1
		}
		flag.Set("test.run", "")
		flag.Set("test.count", fmt.Sprint(count))
		fmt.Fprintf(r.w, "op clean sort=%s count=%d\n", vb(o.Sort), count)
		saved := colors.NOCOLOR
		colors.NOCOLOR = !o.Colour
		before := r.sb.scan()
		rawOut := vCaptureStdout(func() { Clean(new(testing.M), CleanOpts{Sort: o.Sort}) })
		after := r.sb.scan()
		colors.NOCOLOR = saved
		rawOut = strings.ReplaceAll(rawOut, r.sb.root, vRoot) // virtual paths, as everywhere in the transcript
		if wd, err := os.Getwd(); err == nil {
			// (a summary that names files relative to the working directory names the same files)
			if rel, err := filepath.Rel(wd, r.sb.root); err == nil && rel != "." {
				rawOut = strings.ReplaceAll(rawOut, rel+string(filepath.Separator), vRoot+"/")
			}
		}
		out := vAnsi.ReplaceAllString(rawOut, "")
		flag.Set("test.count", "1")

		counts := map[string]string{"passed": "0", "failed": "0", "added": "0", "updated": "0", "skipped": "0"}
		for _, m := range vSumCount.FindAllStringSubmatch(out, -1) {
			counts[m[2]] = m[1]
		}
		files, tests := []string{}, []string{}
		removed := "0"
		// split the listing into its two sections
		secs := vSumList.FindAllStringSubmatchIndex(out, -1)
		for k, loc := range secs {
			end := len(out)
			if k+1 < len(secs) {
				end = secs[k+1][0]
			}
			kind := out[loc[4]:loc[5]]
			if out[loc[6]:loc[7]] == "removed" {
				removed = "1"
			}
			n := 0
			fmt.Sscanf(out[loc[2]:loc[3]], "%d", &n)
			items := []string{}
			for _, m := range vSumItem.FindAllStringSubmatch(out[loc[1]:end], -1) {
				items = append(items, m[1])
			}
			if n != len(items) {
				items = append(items, fmt.Sprintf("<<count %d but %d items listed>>", n, len(items)))
			}
			if strings.HasPrefix(kind, "file") {
				files = items
			} else {
				tests = items
			}
		}
		if len(secs) == 0 {
			// nothing listed: the summary carries no wording; report the mode the case asked for (decided from the case's
			// environment here, not by the library) so that the field is defined
			removed = "0"
			if !isCI && (updateVAR == "true" || updateVAR == "clean") {
				removed = "1"
			}
		}
		printed := "0"
		if strings.Contains(out, "Snapshot Summary") {
			printed = "1"
		}
		// is every line of the summary one this harness knows how to read? (if not, what it extracted above proves
		// nothing about what the summary shows: the oracles then refrain from judging it)
		layout := "1"
		for _, l := range strings.Split(out, "\n") {
			if strings.TrimSpace(l) == "" || l == "Snapshot Summary" || strings.HasPrefix(l, "To remove ") ||
				vSumCount.MatchString(l) || vSumList.MatchString(l) || vSumItem.MatchString(l) {
				continue
			}
			layout = "0"
		}
		if printed == "0" && strings.TrimSpace(out) != "" {
			layout = "0"
		}
		// ... and is every listed item of the shape this harness takes it for? a test item is `<name> - <ordinal>` and nothing
		// else, a file item is a path under the sandbox
		for _, it := range tests {
			if !vItemTest.MatchString(it) {
				layout = "0"
			}
		}
		for _, it := range files {
			if !strings.HasPrefix(it, vRoot+"/") || strings.ContainsAny(it, " \t") && !strings.Contains(it, "/") {
				layout = "0"
			}
		}
		fmt.Fprintf(r.w, "clean %d layout=%s ofiles=%s otests=%s writes=%s printed=%s passed=%s failed=%s added=%s updated=%s skipped=%s removed=%s\n",
			r.idx, layout, vHexList(files, r.sb.virt), vHexList(tests, func(s string) string { return s }),
			r.sb.writes(before, after), printed, counts["passed"], counts["failed"], counts["added"],
			counts["updated"], counts["skipped"], removed)
		r.sb.pin()
		// the exact bytes Clean printed: read back by the model's verified reader, compared with the model's
		// own Clean result and re-rendered byte for byte (the order of the listed items is Go map order)
		r.idx++
		fmt.Fprintf(r.w, "op readsum raw=%s nocolor=%s\n", vhex([]byte(rawOut)), vb(!o.Colour))
		fmt.Fprintf(r.w, "readsum %d ok=1 agree=1 render=1\n", r.idx)
	}

	vExtraOps["natural"] = func(r *vRunner, o vOp) {
		ids := make([]string, len(o.Values))
		for i, v := range o.Values {
			ids[i] = string(vunhex(v))
		}
		fmt.Fprintf(r.w, "op natural ids=%s\n", vHexList2(ids))
		var less strings.Builder
		for i := range ids {
			for j := i; j < len(ids); j++ {
				less.WriteString(vb(natural.Less(ids[i], ids[j])))
				less.WriteString(vb(natural.Less(ids[j], ids[i])))
			}
		}
		sorted := slices.Clone(ids)
		slices.SortFunc(sorted, naturalSort)
		ls := less.String()
		if ls == "" {
			ls = "-"
		}
		fmt.Fprintf(r.w, "natural %d less=%s sorted=%s issorted=%s\n", r.idx, ls, vHexList2(sorted),
			vb(slices.IsSortedFunc(ids, naturalSort)))
	}

	vExtraOps["testid"] = func(r *vRunner, o vOp) {
		line := vunhex(o.Doc)
		fmt.Fprintf(r.w, "op testid line=%s\n", vhex(line))
		id, ok := getTestID(line)
		if ok {
			fmt.Fprintf(r.w, "testid %d ok=1 id=%s\n", r.idx, vhex([]byte(id)))
		} else {
			fmt.Fprintf(r.w, "testid %d ok=0 id=-\n", r.idx)
		}
	}
}

func vHexList2(items []string) string {
	if len(items) == 0 {
		return "~"
	}
	hs := make([]string, len(items))
	for i, it := range items {
		hs[i] = vhex([]byte(it))
	}
	return strings.Join(hs, ",")
}
