//go:build verif

package snaps

// lockfiles / unlockfiles ops: make every file under the sandbox immutable (chattr +i) so that a REWRITE of an existing
// snapshot fails although reading it succeeds - the only way to reach the update-path error handling when the harness
// runs as root. If the file system does not support the flag the op reports ok=0 and the oracle skips the case.

import (
	"fmt"
	"os"
	"path/filepath"
	"syscall"
	"unsafe"
)

const (
	vFsIocGetFlags = 0x80086601
	vFsIocSetFlags = 0x40086602
	vFsImmutable   = 0x10
)

func vSetImmutable(p string, on bool) bool {
	f, err := os.Open(p)
	if err != nil {
		return false
	}
	defer f.Close()
	var flags [2]int32 // the ioctl is declared with `long` but the kernel reads an int
	if _, _, e := syscall.Syscall(syscall.SYS_IOCTL, f.Fd(), vFsIocGetFlags, uintptr(unsafe.Pointer(&flags[0]))); e != 0 {
		return false
	}
	if on {
		flags[0] |= vFsImmutable
	} else {
		flags[0] &^= vFsImmutable
	}
	_, _, e := syscall.Syscall(syscall.SYS_IOCTL, f.Fd(), vFsIocSetFlags, uintptr(unsafe.Pointer(&flags[0])))
	if e != 0 {
		return false
	}
	if on {
		// the flag must also be ENFORCED (some file systems accept and ignore it): opening for writing has to fail now
		if w, err := os.OpenFile(p, os.O_WRONLY, 0); err == nil {
			w.Close()
			return false
		}
	}
	return true
}

func vLockAll(root string, on bool) (n int, ok bool) {
	ok = true
	filepath.Walk(root, func(p string, info os.FileInfo, err error) error {
		if err == nil && !info.IsDir() {
			if vSetImmutable(p, on) {
				n++
			} else {
				ok = false
			}
		}
		return nil
	})
	return
}

func init() {
	vExtraOps["lockfiles"] = func(r *vRunner, o vOp) {
		n, ok := vLockAll(r.sb.root, true)
		fmt.Fprintf(r.w, "op lockfiles\n")
		fmt.Fprintf(r.w, "lockfiles %d ok=%s n=%d\n", r.idx, vb(ok && n > 0), n)
	}
	vExtraOps["unlockfiles"] = func(r *vRunner, o vOp) {
		n, _ := vLockAll(r.sb.root, false)
		r.sb.pin()
		fmt.Fprintf(r.w, "op unlockfiles\n")
		fmt.Fprintf(r.w, "unlockfiles %d n=%d\n", r.idx, n)
	}
}
