//go:build verif

package snaps

// skiprun / fileskip ops: the library's own -run decisions (testSkipped for the entries of an addressed file, isFileSkipped
// for an unregistered file) on given ids / a given sibling test file, so that Model/RunFilter.v is compared with the code.

import (
	"fmt"
	"os"
	"path/filepath"
	"strings"
)

func init() {
	// skiprun: doc = pattern, values = ids ("name - k"), content = newline-joined names on the skip list
	vExtraOps["skiprun"] = func(r *vRunner, o vOp) {
		pat := string(vunhex(o.Doc))
		var skipped []string
		if c := string(vunhex(o.Content)); c != "" {
			skipped = strings.Split(c, "\n")
		}
		ids := make([]string, len(o.Values))
		for i, v := range o.Values {
			ids[i] = string(vunhex(v))
		}
		fmt.Fprintf(r.w, "op skiprun pat=%s skipped=%s ids=%s\n", vhex([]byte(pat)), vHexList2(skipped), vHexList2(ids))
		saved := skippedTests
		skippedTests = newSyncSlice()
		for _, s := range skipped {
			skippedTests.append(s)
		}
		res := make([]string, len(ids))
		for i, id := range ids {
			res[i] = vhex([]byte(id)) + ":" + vBit(testSkipped(id, pat))
		}
		skippedTests = saved
		out := "~"
		if len(res) > 0 {
			out = strings.Join(res, ",")
		}
		fmt.Fprintf(r.w, "skiprun %d res=%s\n", r.idx, out)
	}
	// fileskip: doc = pattern, path = base name of the snapshot file's test file WITHOUT ".go" ("x_test"), values = the
	// function names declared in the sibling test file; novalues = there is no sibling file at all
	vExtraOps["fileskip"] = func(r *vRunner, o vOp) {
		pat := string(vunhex(o.Doc))
		base := string(vunhex(o.Path))
		names := make([]string, len(o.Values))
		for i, v := range o.Values {
			names[i] = string(vunhex(v))
		}
		fmt.Fprintf(r.w, "op fileskip pat=%s base=%s sibling=%s funcs=%s\n", vhex([]byte(pat)), vhex([]byte(base)), vBit(!o.NoValues), vHexList2(names))
		pkg := filepath.Join(r.sb.root, "fileskip_pkg")
		os.RemoveAll(pkg)
		if err := os.MkdirAll(filepath.Join(pkg, "__snapshots__"), 0o755); err != nil {
			panic(err)
		}
		if !o.NoValues {
			var sb strings.Builder
			sb.WriteString("package pkg\n\nimport \"testing\"\n\n")
			for _, n := range names {
				sb.WriteString("func " + n + "(t *testing.T) {}\n\n")
			}
			if err := os.WriteFile(filepath.Join(pkg, base+".go"), []byte(sb.String()), 0o644); err != nil {
				panic(err)
			}
		}
		got := isFileSkipped(filepath.Join(pkg, "__snapshots__"), base+".snap", pat)
		os.RemoveAll(pkg)
		fmt.Fprintf(r.w, "fileskip %d res=%s\n", r.idx, vBit(got))
	}
}

func vBit(b bool) string {
	if b {
		return "1"
	}
	return "0"
}
