//go:build verif

package snaps

// frame op: the file-format functions of snapshot.go on one (file content, header line, value) triple,
// each on a fresh copy of the file: getPrevSnapshot, addNewSnapshot, updateSnapshot, escapeEndChars,
// unescapeEndChars. The pure core of C01-C04; swept exhaustively over a small alphabet in the thorough tier.

import (
	"fmt"
	"os"
	"path/filepath"
)

func init() {
	vExtraOps["frame"] = func(r *vRunner, o vOp) {
		file := vunhex(o.Doc)
		id := string(vunhex(o.Test))
		val := ""
		if len(o.Values) > 0 {
			val = string(vunhex(o.Values[0]))
		}
		dir := filepath.Join(r.sb.root, "frameprobe")
		os.MkdirAll(dir, 0o777)
		p := filepath.Join(dir, "f.snap")
		fresh := func() {
			if err := os.WriteFile(p, file, 0o666); err != nil {
				panic(err)
			}
		}
		fmt.Fprintf(r.w, "op frame file=%s id=%s value=%s\n", vhex(file), vhex([]byte(id)), vhex([]byte(val)))
		fresh()
		prev := "~"
		if s, line, err := getPrevSnapshot(id, p); err == nil {
			prev = fmt.Sprintf("%s@%d", vhex([]byte(s)), line)
		}
		// the two writers are exercised under their production preconditions only: an entry is appended after the reader
		// did not find the header, rewritten after it did ("~" = not applicable)
		fresh()
		added := "~"
		if prev == "~" {
			added = "!"
			if err := addNewSnapshot(id, val, p); err == nil {
				b, _ := os.ReadFile(p)
				added = vhex(b)
			}
		}
		fresh()
		updated := "~"
		if prev != "~" {
			updated = "!"
			if err := updateSnapshot(id, val, p); err == nil {
				b, _ := os.ReadFile(p)
				updated = vhex(b)
			}
		}
		os.RemoveAll(dir)
		r.sb.pin()
		fmt.Fprintf(r.w, "frame %d prev=%s added=%s updated=%s esc=%s unesc=%s\n", r.idx, prev, added, updated,
			vhex([]byte(escapeEndChars(val))), vhex([]byte(unescapeEndChars(val))))
	}
}
