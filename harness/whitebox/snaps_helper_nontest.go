//go:build verif

package snaps

// Non-test source file injected (tag verif) so that harness call chains can contain frames
// that do NOT live in a *_test.go file, like a user's helper package would.

import "runtime"

type VFrame struct {
	Func string
	File string
}

//go:noinline
func VHelperNonTestA(f func()) { f() }

//go:noinline
func VHelperNonTestB(f func()) { VHelperNonTestA(f) }

// VProbeExported / vProbeInner play the exported Match* function and its internal twin:
// snapshotPath is called exactly two frames below the user's call, as in the library.
//
//go:noinline
func VProbeExported(c *Config, name string, standalone bool) (string, string, []VFrame) {
	return vProbeInner(c, name, standalone)
}

//go:noinline
func vProbeInner(c *Config, name string, standalone bool) (string, string, []VFrame) {
	frames := []VFrame{}
	pcs := make([]uintptr, 512)
	// skip runtime.Callers, vProbeInner, VProbeExported
	n := runtime.Callers(3, pcs)
	for _, pc := range pcs[:n] {
		// same view as runtime.Caller: one frame per pc
		fn := runtime.FuncForPC(pc - 1)
		if fn == nil {
			break
		}
		file, _ := fn.FileLine(pc - 1)
		frames = append(frames, VFrame{Func: fn.Name(), File: file})
	}
	p, rel := snapshotPath(c, name, standalone)
	return p, rel, frames
}

// a leaf call made from a non-test source file (a helper package calling snaps.Match*)
//
//go:noinline
func VLeafNonTest(c *Config, name string, standalone bool) (string, string, []VFrame) {
	return VProbeExported(c, name, standalone)
}

// a leaf call made at the bottom of a deep recursion inside a non-test source file (a tree walker in a helper
// package): `depth` consecutive non-test frames lie between the Match* call and the nearest *_test.go frame
//
//go:noinline
func VLeafDeepNonTest(depth int, c *Config, name string, standalone bool) (string, string, []VFrame) {
	if depth > 0 {
		p, rel, fr := VLeafDeepNonTest(depth-1, c, name, standalone)
		return p, rel, fr
	}
	return VProbeExported(c, name, standalone)
}
