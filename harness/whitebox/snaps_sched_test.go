//go:build verif

package snaps

// sched op: runs N goroutines, each making the Match* calls of one test against ONE shared
// snapshot file, under a deterministic scheduler. Every lock / file-system operation of the
// (instrumented) library is a scheduling point; the controller runs exactly one goroutine at a
// time and models the RW lock itself so that it never releases a goroutine into a blocking
// acquire. All interleavings are enumerated depth-first by replay (or sampled at random).

import (
	"bytes"
	"fmt"
	"math/rand"
	"os"
	"path/filepath"
	"runtime"
	"strconv"
	"strings"
	"sync"

	"github.com/gkampitakis/go-snaps/match"
)

type vEvent struct {
	g    int
	kind string
	done bool
}

type vCtl struct {
	mu      sync.Mutex
	gids    map[uint64]int
	events  chan vEvent
	resume  []chan struct{}
	pending []string // next operation of each goroutine ("" = unknown / running, "done")
}

func vGoID() uint64 {
	var buf [64]byte
	n := runtime.Stack(buf[:], false)
	// "goroutine 123 [running]:"
	f := strings.Fields(string(buf[:n]))
	id, _ := strconv.ParseUint(f[1], 10, 64)
	return id
}

func (c *vCtl) yield(kind string) {
	c.mu.Lock()
	g, ok := c.gids[vGoID()]
	c.mu.Unlock()
	if !ok {
		return // not a goroutine under control
	}
	c.events <- vEvent{g: g, kind: kind}
	<-c.resume[g]
}

// the stored form of a value, written here independently of the library's escapeEndChars: every line that is exactly
// the terminator becomes the escape token
func vEscapeIndependent(v string) string {
	ls := strings.Split(v, "\n")
	for i, l := range ls {
		if l == "---" {
			ls[i] = "/-/-/-/"
		}
	}
	return strings.Join(ls, "\n")
}

type vSchedCall struct {
	g     int
	test  string
	value string
	api   string // "" = package-level MatchSnapshot; "cfg" / "cfgjson" = through ONE shared Config
}

// one run of the scenario under the choice sequence `path`; returns trace, path taken (choice, arity)
func vRunSchedule(r *vRunner, initial []byte, hasFile bool, calls []vSchedCall, ng int, path []int, rnd *rand.Rand) (trace []string, taken [][2]int, final []byte, finalExists bool, outcomes [][]string, deadlock bool) {
	defdir := r.sb.root + "/def"
	vResetProcess(defdir)
	os.RemoveAll(defdir)
	file := filepath.Join(defdir, "zz_verif_sched_test.snap")
	if hasFile {
		os.MkdirAll(defdir, 0o777)
		os.WriteFile(file, initial, 0o666)
	}
	ctl := &vCtl{gids: map[uint64]int{}, events: make(chan vEvent), resume: make([]chan struct{}, ng), pending: make([]string, ng)}
	for i := range ctl.resume {
		ctl.resume[i] = make(chan struct{})
	}
	vSchedHook = ctl.yield
	defer func() { vSchedHook = nil }()
	outcomes = make([][]string, ng)
	ts := make([]*vT, ng)
	shared := WithConfig(Dir(defdir), Filename("zz_verif_sched_test"))
	var wg sync.WaitGroup
	for g := 0; g < ng; g++ {
		g := g
		wg.Add(1)
		go func() {
			defer wg.Done()
			ctl.mu.Lock()
			ctl.gids[vGoID()] = g
			ctl.mu.Unlock()
			ctl.yield("Start")
			for _, c := range calls {
				if c.g != g {
					continue
				}
				if ts[g] == nil {
					ts[g] = &vT{name: c.test}
				}
				t := ts[g]
				ne, nl := len(t.errs), len(t.logs)
				switch c.api {
				case "cfg":
					shared.MatchSnapshot(t, c.value)
				case "cfgjson":
					shared.MatchStandaloneJSON(t, c.value)
				default:
					MatchSnapshot(t, c.value)
				}
				oc := "passed"
				if len(t.errs) > ne {
					oc = "failed:" + vClassifyErr(t.errs[ne])
				} else if len(t.logs) > nl {
					oc = vClassifyLog(t.logs[nl])
				}
				outcomes[g] = append(outcomes[g], oc)
			}
			// the goroutine's test ends here: its Cleanup functions run (as testing.T does) while the other
			// tests may still be between two of their calls
			if t := ts[g]; t != nil {
				for i := len(t.cleanups) - 1; i >= 0; i-- {
					t.cleanups[i]()
				}
				t.cleanups = nil
			}
			ctl.events <- vEvent{g: g, done: true}
		}()
	}
	// controller
	rl, wl := 0, -1
	alive := ng
	for i := 0; i < ng; i++ { // collect the initial "Start" yields
		e := <-ctl.events
		ctl.pending[e.g] = e.kind
	}
	step := 0
	for alive > 0 {
		enabled := []int{}
		for g := 0; g < ng; g++ {
			k := ctl.pending[g]
			if k == "done" {
				continue
			}
			if k == "RLock" && wl != -1 {
				continue
			}
			if k == "Lock" && (wl != -1 || rl > 0) {
				continue
			}
			enabled = append(enabled, g)
		}
		if len(enabled) == 0 {
			deadlock = true
			break
		}
		choice := 0
		if len(enabled) > 1 {
			if rnd != nil {
				choice = rnd.Intn(len(enabled))
			} else if step < len(path) {
				choice = path[step]
			}
			taken = append(taken, [2]int{choice, len(enabled)})
			step++
		}
		g := enabled[choice]
		k := ctl.pending[g]
		switch k {
		case "RLock":
			rl++
		case "RUnlock":
			rl--
		case "Lock":
			wl = g
		case "Unlock":
			wl = -1
		}
		if k != "Start" {
			trace = append(trace, fmt.Sprintf("%d:%s", g, k))
		}
		ctl.pending[g] = ""
		ctl.resume[g] <- struct{}{}
		e := <-ctl.events // the same goroutine reports its next operation (only one goroutine runs)
		if e.done {
			ctl.pending[e.g] = "done"
			alive--
		} else {
			ctl.pending[e.g] = e.kind
		}
	}
	if deadlock {
		return
	}
	wg.Wait()
	final, err := os.ReadFile(file)
	finalExists = err == nil
	return
}

func init() {
	vExtraOps["sched"] = func(r *vRunner, o vOp) {
		// Values: "g|testhex|valuehex" in program order; Content: initial file ("~" in Path = missing);
		// Count: max schedules; Form: "dfs" | "random:<seed>"
		calls := []vSchedCall{}
		ng := 0
		callS := []string{}
		for _, v := range o.Values {
			p := strings.Split(v, "|")
			g, _ := strconv.Atoi(p[0])
			sc := vSchedCall{g: g, test: string(vunhex(p[1])), value: string(vunhex(p[2]))}
			if len(p) > 3 {
				sc.api = p[3]
			}
			calls = append(calls, sc)
			if g+1 > ng {
				ng = g + 1
			}
		}
		hasFile := o.Path != "~"
		initial := vunhex(o.Content)
		// the mode the calls run under, decided here from the case's environment (NOT by the library's shouldCreate /
		// shouldUpdate): off CI new snapshots may be created; rewriting needs UPDATE_SNAPS=true
		create, update := !isCI, !isCI && updateVAR == "true"
		ord := map[string]int{}
		for _, c := range calls {
			ord[c.test]++ // each goroutine runs ONE execution of its own test: the k-th call addresses [test - k]
			callS = append(callS, fmt.Sprintf("%d:%s:%s:~:%s:%s", c.g, vhex([]byte(fmt.Sprintf("[%s - %d]", c.test, ord[c.test]))), vhex([]byte(vEscapeIndependent(c.value))), vb(create), vb(update)))
		}
		max := o.Count
		if max <= 0 {
			max = 200
		}
		var rnd *rand.Rand
		if strings.HasPrefix(o.Form, "random:") {
			seed, _ := strconv.ParseInt(o.Form[7:], 10, 64)
			rnd = rand.New(rand.NewSource(seed))
		}
		path := []int{}
		fileS := "~"
		if hasFile {
			fileS = vhex(initial)
		}
		first := true
		for n := 0; n < max; n++ {
			trace, taken, final, exists, outcomes, deadlock := vRunSchedule(r, initial, hasFile, calls, ng, path, rnd)
			if !first {
				r.idx++
			}
			first = false
			fmt.Fprintf(r.w, "op sched proto=repaired file=%s calls=%s events=%s\n", fileS, strings.Join(callS, ";"), strings.Join(trace, ","))
			oc := []string{}
			for g, os_ := range outcomes {
				oc = append(oc, fmt.Sprintf("%d:%s", g, strings.Join(os_, "/")))
			}
			ff := "~"
			if exists {
				ff = vhex(final)
			}
			if deadlock {
				fmt.Fprintf(r.w, "sched %d ok=1 finished=0 file=%s outcomes=%s\n", r.idx, ff, strings.Join(oc, ";"))
			} else {
				fmt.Fprintf(r.w, "sched %d ok=1 finished=1 file=%s outcomes=%s\n", r.idx, ff, strings.Join(oc, ";"))
			}
			if rnd != nil {
				continue
			}
			// next DFS path: increment the last incrementable choice
			k := len(taken) - 1
			for k >= 0 && taken[k][0]+1 >= taken[k][1] {
				k--
			}
			if k < 0 {
				break
			}
			path = make([]int, k+1)
			for i := 0; i < k; i++ {
				path[i] = taken[i][0]
			}
			path[k] = taken[k][0] + 1
		}
		_ = bytes.Equal
	}
}

// parallel op: free-running goroutines (no scheduler) hammering Match*, Skip* and one shared Config.
// Meant for a -race build: the race detector makes the binary fail; the op itself reports lost or
// torn entries.
// A FORCED interleaving for Go values: goroutine A's call is stopped inside a transparent Custom matcher (after its value was
// encoded, before the snapshot is taken) while goroutine B makes a complete call with a value of the same encoded size - on ONE
// processor, so that anything the library recycles per processor (a pooled buffer) is handed from A to B. Each file must hold
// its own goroutine's value.
func vPoolScenario(dir string) bool {
	old := runtime.GOMAXPROCS(1)
	defer runtime.GOMAXPROCS(old)
	os.RemoveAll(dir)
	cfg := WithConfig(Dir(dir))
	tA, tB := &vT{name: "TestPoolA"}, &vT{name: "TestPoolB"}
	aIn, bDone := make(chan struct{}), make(chan struct{})
	var wg sync.WaitGroup
	wg.Add(2)
	go func() {
		defer wg.Done()
		cfg.MatchStandaloneJSON(tA, vParDoc{ID: 1, Payload: strings.Repeat("a", 512)}, match.Custom("id", func(v any) (any, error) {
			close(aIn)
			<-bDone
			return v, nil
		}))
	}()
	go func() {
		defer wg.Done()
		<-aIn
		cfg.MatchStandaloneJSON(tB, vParDoc{ID: 2, Payload: strings.Repeat("b", 512)})
		close(bDone)
	}()
	wg.Wait()
	ok := len(tA.errs) == 0 && len(tB.errs) == 0
	for _, x := range []struct {
		f, id, pay string
	}{{"TestPoolA_1.snap.json", "\"id\": 1,", strings.Repeat("a", 512)}, {"TestPoolB_1.snap.json", "\"id\": 2,", strings.Repeat("b", 512)}} {
		b, err := os.ReadFile(filepath.Join(dir, x.f))
		if err != nil || !strings.Contains(string(b), x.id) || !strings.Contains(string(b), x.pay) {
			ok = false
		}
	}
	for _, t := range []*vT{tA, tB} {
		for _, f := range t.cleanups {
			f()
		}
	}
	return ok
}

type vParDoc struct {
	ID      int    `json:"id"`
	Payload string `json:"payload"`
}

func init() {
	vExtraOps["parallel"] = func(r *vRunner, o vOp) {
		rounds := o.Count
		if rounds <= 0 {
			rounds = 20
		}
		ng := 8
		fmt.Fprintf(r.w, "op parallel rounds=%d\n", rounds)
		bad := 0
		for round := 0; round < rounds; round++ {
			defdir := r.sb.root + "/def"
			vResetProcess(defdir)
			os.RemoveAll(defdir)
			shared := WithConfig(Dir(defdir))
			var wg sync.WaitGroup
			ts := make([]*vT, ng)
			for g := 0; g < ng; g++ {
				g := g
				ts[g] = &vT{name: fmt.Sprintf("TestPar%d", g)}
				wg.Add(1)
				go func() {
					defer wg.Done()
					t := ts[g]
					MatchSnapshot(t, fmt.Sprintf("value of %d", g))
					shared.MatchSnapshot(t, strings.Repeat("x", 100*g))
					shared.MatchStandaloneJSON(t, `{"g":1}`)
					shared.MatchJSON(t, `{"k":"v"}`)
					// YAML with matchers from many goroutines: each result must be its own document
					ydoc := fmt.Sprintf("g: %d\nsecret: s%d\nlist:\n  - %s\n", g, g, strings.Repeat("y", 40*g+1))
					shared.MatchYAML(t, ydoc, match.Any("$.secret"))
					if g%3 == 0 {
						Skip(&vT{name: fmt.Sprintf("TestSkipped%d", g)})
					}
					MatchStandaloneSnapshot(t, "standalone")
					// Go VALUES of equal encoded size from many goroutines: each stored document is its own value
					// (a transparent Custom matcher that yields the processor sits between the encoding of the value and its use:
					// whatever the library keeps of the encoded bytes must still be this goroutine's own)
					shared.MatchStandaloneJSON(t, vParDoc{ID: g, Payload: strings.Repeat(string(rune('a'+g)), 2048)},
						match.Custom("id", func(v any) (any, error) {
							for k := 0; k < 4; k++ {
								runtime.Gosched()
							}
							return v, nil
						}))
				}()
			}
			wg.Wait()
			for g := 0; g < ng; g++ {
				if len(ts[g].errs) > 0 {
					bad++
				}
			}
			ev := vEvents()
			if round < 3 && !vPoolScenario(r.sb.root+"/pool") {
				bad++
			}
			if ev[0]+ev[1]+ev[2]+ev[3] != ng*7 {
				bad++
			}
			for g := 0; g < ng; g++ {
				b, err := os.ReadFile(filepath.Join(defdir, fmt.Sprintf("TestPar%d_2.snap.json", g)))
				if err != nil || !strings.Contains(string(b), fmt.Sprintf("\"id\": %d,", g)) || !strings.Contains(string(b), strings.Repeat(string(rune('a'+g)), 2048)) {
					bad++
				}
			}
			// every goroutine's YAML entry holds exactly its own masked document
			if b, err := os.ReadFile(filepath.Join(defdir, "zz_verif_sched_test.snap")); err == nil {
				for g := 0; g < ng; g++ {
					// (the placeholder may be written plain or quoted: both are the string `<Any value>`)
					want := fmt.Sprintf("g: %d\nsecret: <Any value>\nlist:\n  - %s\n", g, strings.Repeat("y", 40*g+1))
					wantQ := fmt.Sprintf("g: %d\nsecret: \"<Any value>\"\nlist:\n  - %s\n", g, strings.Repeat("y", 40*g+1))
					if !strings.Contains(string(b), want) && !strings.Contains(string(b), wantQ) {
						bad++
					}
				}
			} else {
				bad++
			}
		}
		fmt.Fprintf(r.w, "parallel %d rounds=%d bad=%d\n", r.idx, rounds, bad)
	}
}
