//go:build verif

package snaps

// JSON ops of the trace harness (model: /verif/coq/theories/Model/Json.v,
// driver: /verif/driver/cmd_json.ml).
//
//	jsonsnap  doc/form/json  -> validateJSON + takeJSONSnapshot
//	  op jsonsnap doc=<hex> width=<n> indent=<hex> sort=<0|1>
//	  jsonsnap <idx> valid=<0|1> text=<hex|-> std=<hex|-|!>
//	  (doc in the op line = the bytes validateJSON returned when valid, else the bytes it
//	   rejected: the input, or the Go string when the input value is a string)
//
//	jsonset   doc + values=[hex gjson path, hex replacement JSON text]
//	  op jsonset doc=<hex> path=<hex> value=<hex>
//	  jsonset <idx> err=<0|1> result=<hex|-> caller_unchanged=<0|1>
//	  (value in the op line = the text sjson inserts for the placeholder;
//	   result = takeJSONSnapshot with the default config of the matcher output on a COPY;
//	   caller_unchanged = the caller's []byte is byte-identical after MatchJSON-style
//	   validateJSON + applyJSONMatchers on the ORIGINAL buffer)

import (
	"bytes"
	"encoding/json"
	"fmt"

	"github.com/gkampitakis/go-snaps/match"
	"github.com/tidwall/sjson"
)

func init() {
	vExtraOps["jsonsnap"] = vJSONSnap
	vExtraOps["jsonset"] = vJSONSet
}

func vJSONSnap(r *vRunner, o vOp) {
	doc := vunhex(o.Doc)
	cfg := &Config{}
	width, indent, sortKeys := vDefaultJSONLayout()
	if o.JSON != nil {
		cfg.json = &JSONConfig{Width: o.JSON.Width, Indent: o.JSON.Indent, SortKeys: o.JSON.SortKeys}
		width, indent, sortKeys = o.JSON.Width, o.JSON.Indent, o.JSON.SortKeys
	}
	input := vInput(o.Form, doc)
	j, err := validateJSON(input)
	// the model is handed the input as the CALLER gave it: text as is, a Go value as json.Marshal(value) computed
	// here (not by the library); a value that cannot be marshalled is handed over as an invalid text
	seen := doc
	// std: what the library stores for the value's standard JSON encoding handed over as []byte ("the same text for all
	// three" input forms) - only for Go-value inputs
	std := "-"
	switch v := input.(type) {
	case string:
		seen = []byte(v)
	case []byte:
	default:
		if mj, merr := json.Marshal(v); merr == nil {
			seen = mj
			if j2, e2 := validateJSON(append([]byte{}, mj...)); e2 == nil {
				std = vhex([]byte(takeJSONSnapshot(cfg, append([]byte{}, j2...))))
			} else {
				std = "!"
			}
		} else {
			seen = []byte("!unmarshalable")
		}
	}
	fmt.Fprintf(r.w, "op jsonsnap doc=%s width=%d indent=%s sort=%s\n",
		vhex(seen), width, vhex([]byte(indent)), vb(sortKeys))
	if err != nil {
		fmt.Fprintf(r.w, "jsonsnap %d valid=0 text=- std=%s\n", r.idx, std)
		return
	}
	text := takeJSONSnapshot(cfg, append([]byte{}, j...))
	fmt.Fprintf(r.w, "jsonsnap %d valid=1 text=%s std=%s\n", r.idx, vhex([]byte(text)), std)
}

// the text sjson inserts for a placeholder value (non in-place code path)
func vPlaceholderText(v any) []byte {
	res, err := sjson.SetBytes([]byte(`[null]`), "0", v)
	if err != nil || len(res) < 2 {
		return nil
	}
	return res[1 : len(res)-1]
}

func vJSONSet(r *vRunner, o vOp) {
	doc := vunhex(o.Doc)
	var path string
	var valueText []byte
	if len(o.Values) > 0 {
		path = string(vunhex(o.Values[0]))
	}
	if len(o.Values) > 1 {
		valueText = vunhex(o.Values[1])
	}
	var placeholder any
	if err := json.Unmarshal(valueText, &placeholder); err != nil {
		placeholder = string(valueText)
	}
	dw, di, _ := vDefaultJSONLayout()
	fmt.Fprintf(r.w, "op jsonset doc=%s path=%s value=%s width=%d indent=%s\n",
		vhex(doc), vhex([]byte(path)), vhex(vPlaceholderText(placeholder)), dw, vhex([]byte(di)))

	// on a copy
	errS, result := "0", "-"
	j, err := validateJSON(append([]byte{}, doc...))
	if err != nil {
		errS = "1"
	} else {
		out, errs := match.Any(path).Placeholder(placeholder).JSON(append([]byte{}, j...))
		if len(errs) > 0 {
			errS = "1"
		} else {
			result = vhex([]byte(takeJSONSnapshot(&Config{}, out)))
		}
	}

	// on the caller's buffer, the way matchJSON does it
	caller := append([]byte{}, doc...)
	saved := append([]byte{}, doc...)
	if j2, err2 := validateJSON(caller); err2 == nil {
		applyJSONMatchers(j2, match.Any(path).Placeholder(placeholder))
	}
	fmt.Fprintf(r.w, "jsonset %d err=%s result=%s caller_unchanged=%s\n",
		r.idx, errS, result, vb(bytes.Equal(caller, saved)))
}
