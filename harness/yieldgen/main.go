// yieldgen copies the non-test Go files of a package and inserts verifYield("<kind>") calls
// before every statement that performs an operation on the process-wide RW lock `_m` or on the
// file system. It works on whatever the current sources are (also on edited / mutated trees),
// so yields follow the operations wherever a change moves them.
//
// usage: yieldgen <srcdir> <outdir>   (prints "file<TAB>instrumented-file" lines)
package main

import (
	"bytes"
	"fmt"
	"go/ast"
	"go/parser"
	"go/printer"
	"go/token"
	"os"
	"path/filepath"
	"strings"
)

func callName(e ast.Expr) string {
	c, ok := e.(*ast.CallExpr)
	if !ok {
		return ""
	}
	switch f := c.Fun.(type) {
	case *ast.SelectorExpr:
		if x, ok := f.X.(*ast.Ident); ok {
			return x.Name + "." + f.Sel.Name
		}
		return "?." + f.Sel.Name
	case *ast.Ident:
		return f.Name
	}
	return ""
}

// file variables of the function being rewritten: results of os.Open/OpenFile/Create, parameters of type *os.File /
// io.Writer / io.Reader, and anything built from one of them (bufio writers, scanners, snapshotScanner(f), ...)
var fileVars = map[string]bool{}

// parameters of an INTERFACE type (io.Writer / io.Reader): whether a file is behind them depends on the caller. Operations on
// them are scheduling points like any other, but of kind "FSu" (uncertain): the trace replay does not demand a lock around them.
var ifaceVars = map[string]bool{}

// operations that only make sure a DIRECTORY exists (idempotent, safe to repeat concurrently): kind "FSd"
var osDirOnly = map[string]bool{"MkdirAll": true, "Mkdir": true}

var osFS = map[string]bool{"ReadFile": true, "WriteFile": true, "OpenFile": true, "Open": true, "Create": true, "MkdirAll": true,
	"Mkdir": true, "Remove": true, "RemoveAll": true, "Rename": true, "ReadDir": true, "Truncate": true}

var fileMethods = map[string]bool{"Write": true, "WriteString": true, "Truncate": true, "Read": true, "ReadFrom": true,
	"WriteTo": true, "Flush": true, "ReadAt": true, "WriteAt": true, "Scan": true, "ReadString": true, "ReadBytes": true, "ReadLine": true}

func usesOnlyIfaceVars(args []ast.Expr) bool {
	for _, a := range args {
		if id, ok := a.(*ast.Ident); ok && fileVars[id.Name] && !ifaceVars[id.Name] {
			return false
		}
	}
	return true
}

func usesFileVar(args []ast.Expr) bool {
	for _, a := range args {
		if id, ok := a.(*ast.Ident); ok && fileVars[id.Name] {
			return true
		}
	}
	return false
}

// collect the file variables of a function (flow-insensitive, two passes for chains like f -> w -> ...)
func collectFileVars(fn *ast.FuncDecl) {
	fileVars = map[string]bool{}
	ifaceVars = map[string]bool{}
	if fn.Type.Params != nil {
		for _, fld := range fn.Type.Params.List {
			ts := fmt.Sprint(fld.Type)
			var tb bytes.Buffer
			printer.Fprint(&tb, token.NewFileSet(), fld.Type)
			ts = tb.String()
			if ts == "*os.File" || ts == "io.Writer" || ts == "io.Reader" || ts == "*bufio.Scanner" || ts == "*bufio.Writer" || ts == "io.ReadWriter" {
				for _, n := range fld.Names {
					fileVars[n.Name] = true
					if ts == "io.Writer" || ts == "io.Reader" || ts == "io.ReadWriter" {
						ifaceVars[n.Name] = true
					}
				}
			}
		}
	}
	for pass := 0; pass < 3; pass++ {
		ast.Inspect(fn.Body, func(n ast.Node) bool {
			as, ok := n.(*ast.AssignStmt)
			if !ok || len(as.Rhs) != 1 {
				return true
			}
			c, ok := as.Rhs[0].(*ast.CallExpr)
			if !ok {
				return true
			}
			name := callName(c)
			// sources: os.Open* / os.Create; propagation: single-result constructors wrapping a file variable
			// (bufio.NewWriter(f), snapshotScanner(f)); io.ReadAll(f) returns the BYTES (and an error): not a file variable
			src := name == "os.OpenFile" || name == "os.Open" || name == "os.Create" || (len(as.Lhs) == 1 && usesFileVar(c.Args))
			if src {
				if id, ok := as.Lhs[0].(*ast.Ident); ok && id.Name != "_" {
					fileVars[id.Name] = true
				}
			}
			return true
		})
	}
}

// kinds of the calls that occur directly in an expression (not inside function literals): the four operations on the
// process-wide RW lock `_m`, and "FS" for ANY operation on the file system - os.* calls, methods of file variables (and of
// writers / scanners built on them), and library calls that are handed a file variable (fmt.Fprintf(f, ...), io.ReadAll(f)).
// Which os / io / bufio API the library uses to read or write a file is therefore irrelevant.
func kindsOf(e ast.Node, inOpenFn bool) []string {
	var ks []string
	if e == nil {
		return nil
	}
	ast.Inspect(e, func(n ast.Node) bool {
		switch x := n.(type) {
		case *ast.FuncLit:
			return false
		case *ast.CallExpr:
			name := callName(x)
			switch name {
			case "_m.RLock":
				ks = append(ks, "RLock")
				return true
			case "_m.RUnlock":
				ks = append(ks, "RUnlock")
				return true
			case "_m.Lock":
				ks = append(ks, "Lock")
				return true
			case "_m.Unlock":
				ks = append(ks, "Unlock")
				return true
			}
			if sel, ok := x.Fun.(*ast.SelectorExpr); ok {
				if id, ok := sel.X.(*ast.Ident); ok {
					switch {
					case id.Name == "os" && osDirOnly[sel.Sel.Name]:
						ks = append(ks, "FSd")
					case id.Name == "os" && osFS[sel.Sel.Name]:
						ks = append(ks, "FS")
					case fileVars[id.Name] && fileMethods[sel.Sel.Name]:
						if ifaceVars[id.Name] {
							ks = append(ks, "FSu")
						} else {
							ks = append(ks, "FS")
						}
					case (id.Name == "fmt" || id.Name == "io") && usesFileVar(x.Args) && !strings.HasPrefix(sel.Sel.Name, "New"):
						if usesOnlyIfaceVars(x.Args) {
							ks = append(ks, "FSu")
						} else {
							ks = append(ks, "FS")
						}
					}
				}
			}
		}
		return true
	})
	return ks
}

func yieldStmt(kind string) ast.Stmt {
	return &ast.ExprStmt{X: &ast.CallExpr{Fun: ast.NewIdent("verifYield"),
		Args: []ast.Expr{&ast.BasicLit{Kind: token.STRING, Value: fmt.Sprintf("%q", kind)}}}}
}

func hasOpenFile(fn *ast.FuncDecl) bool {
	found := false
	ast.Inspect(fn, func(n ast.Node) bool {
		if c, ok := n.(*ast.CallExpr); ok && callName(c) == "os.OpenFile" {
			found = true
		}
		return true
	})
	return found
}

func isScanLoop(f *ast.ForStmt) bool {
	if f.Cond == nil {
		return false
	}
	c, ok := f.Cond.(*ast.CallExpr)
	if !ok {
		return false
	}
	sel, ok := c.Fun.(*ast.SelectorExpr)
	return ok && sel.Sel.Name == "Scan"
}

func rewriteBlock(b *ast.BlockStmt, inOpenFn bool, depth int) {
	if b == nil {
		return
	}
	var out []ast.Stmt
	for _, st := range b.List {
		var ks []string
		switch s := st.(type) {
		case *ast.ExprStmt:
			ks = kindsOf(s.X, inOpenFn)
		case *ast.AssignStmt:
			for _, r := range s.Rhs {
				ks = append(ks, kindsOf(r, inOpenFn)...)
			}
		case *ast.ReturnStmt:
			for _, r := range s.Results {
				ks = append(ks, kindsOf(r, inOpenFn)...)
			}
		case *ast.IfStmt:
			ks = append(ks, kindsOf(s.Init, inOpenFn)...)
			ks = append(ks, kindsOf(s.Cond, inOpenFn)...)
			rewriteBlock(s.Body, inOpenFn, depth+1)
			for el := s.Else; el != nil; {
				switch e := el.(type) {
				case *ast.BlockStmt:
					rewriteBlock(e, inOpenFn, depth+1)
					el = nil
				case *ast.IfStmt: // else if: its own init / condition get no scheduling point of their own, its bodies do
					rewriteBlock(e.Body, inOpenFn, depth+1)
					el = e.Else
				default:
					el = nil
				}
			}
		case *ast.ForStmt:
			if isScanLoop(s) && len(kindsOf(s.Cond, inOpenFn)) > 0 {
				ks = append(ks, "FS") // the file is consumed by this scan loop (one scheduling point, not one per line)
			}
			rewriteBlock(s.Body, inOpenFn, depth+1)
		case *ast.RangeStmt:
			rewriteBlock(s.Body, inOpenFn, depth+1)
		case *ast.BlockStmt:
			rewriteBlock(s, inOpenFn, depth+1)
		case *ast.DeferStmt:
			// defer func() { ...; _m.Unlock() }()  : the statements of the closure are rewritten like any block
			if fl, ok := s.Call.Fun.(*ast.FuncLit); ok {
				rewriteBlock(fl.Body, inOpenFn, depth+1)
				break
			}
			// defer _m.Unlock()  =>  defer func() { verifYield("Unlock"); _m.Unlock() }()
			dk := kindsOf(s.Call, inOpenFn)
			if len(dk) > 0 {
				body := []ast.Stmt{}
				for _, k := range dk {
					body = append(body, yieldStmt(k))
				}
				body = append(body, &ast.ExprStmt{X: s.Call})
				st = &ast.DeferStmt{Call: &ast.CallExpr{Fun: &ast.FuncLit{
					Type: &ast.FuncType{Params: &ast.FieldList{}}, Body: &ast.BlockStmt{List: body}}}}
			}
		case *ast.SwitchStmt:
			rewriteBlock(s.Body, inOpenFn, depth+1)
		case *ast.TypeSwitchStmt:
			rewriteBlock(s.Body, inOpenFn, depth+1)
		case *ast.SelectStmt:
			rewriteBlock(s.Body, inOpenFn, depth+1)
		case *ast.CommClause:
			inner := &ast.BlockStmt{List: s.Body}
			rewriteBlock(inner, inOpenFn, depth+1)
			s.Body = inner.List
		case *ast.LabeledStmt:
			if bs, ok := s.Stmt.(*ast.BlockStmt); ok {
				rewriteBlock(bs, inOpenFn, depth+1)
			}
		case *ast.CaseClause:
			inner := &ast.BlockStmt{List: s.Body}
			rewriteBlock(inner, inOpenFn, depth+1)
			s.Body = inner.List
		}
		for _, k := range ks {
			out = append(out, yieldStmt(k))
		}
		out = append(out, st)
	}
	b.List = out
}

func main() {
	if len(os.Args) != 3 {
		fmt.Fprintln(os.Stderr, "usage: yieldgen <srcdir> <outdir>")
		os.Exit(2)
	}
	src, out := os.Args[1], os.Args[2]
	os.MkdirAll(out, 0o777)
	entries, err := os.ReadDir(src)
	if err != nil {
		panic(err)
	}
	for _, e := range entries {
		n := e.Name()
		if e.IsDir() || !strings.HasSuffix(n, ".go") || strings.HasSuffix(n, "_test.go") {
			continue
		}
		fset := token.NewFileSet()
		path := filepath.Join(src, n)
		f, err := parser.ParseFile(fset, path, nil, parser.ParseComments)
		if err != nil {
			panic(err)
		}
		changed := false
		for _, d := range f.Decls {
			fn, ok := d.(*ast.FuncDecl)
			if !ok || fn.Body == nil {
				continue
			}
			var before bytes.Buffer
			printer.Fprint(&before, fset, fn.Body)
			collectFileVars(fn)
			rewriteBlock(fn.Body, hasOpenFile(fn), 0)
			var after bytes.Buffer
			printer.Fprint(&after, fset, fn.Body)
			if before.String() != after.String() {
				changed = true
			}
		}
		if !changed {
			continue
		}
		var buf bytes.Buffer
		if err := printer.Fprint(&buf, fset, f); err != nil {
			panic(err)
		}
		op := filepath.Join(out, n)
		if err := os.WriteFile(op, buf.Bytes(), 0o666); err != nil {
			panic(err)
		}
		fmt.Printf("%s\t%s\n", path, op)
	}
}
