module yieldgen

go 1.22
